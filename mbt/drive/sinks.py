"""Driver for Sinks.tla (C05): one catalogue entry x one concrete string on a FRESH presentation, through the public API.

A case is {"id", "sink", "abs": [class ids as enumerated by TLC] | None, "text": concrete string}.  run_case returns the trace record
validated by Trace_Sinks.tla:

    {id, sink, abs, a: {op:"Store", sink, s: tokens, want: tokens, stored: bool, plain: {elems, pkg}},
     t: {out: "ok" | exception class, field: {set, v}, saved, parses, reopened, elems, pkg, field2: {set, v}}, info: {...}}

Projection (independent of python-pptx's classes wherever the state can be read from bytes):
    field   the PUBLIC reader of the entry, classified back into tokens; entries without a public reader: the value found by
            XPath in the saved XML member (plain lxml on the zip bytes)
    elems   sha1 of the element tags, in document order, of the owner part's zip member (+ its .rels member)
    pkg     sha1 of (member name, tag sequence) over every XML member of the saved package
    parses  every XML member of the saved package parses with plain lxml
    reopened / field2   pptx.Presentation(bytes) succeeds; the same reader on the re-opened package (XPath entries: after a second save)

Strings are token sequences: token = class + 32 * code point for single characters, class + 32 * (0x110000 + k) for the k-th
multi-character representative of CDEND / ENT / CDOPEN / ELEM.  Classification is a function of the text alone, so two texts are equal
iff their token sequences are."""
from __future__ import annotations

import hashlib
import io
import os
import random
import re
import shutil
import zipfile
import zlib

from lxml import etree

from mbt.catalog import sinks as C

AMP, LT, GT, QUOT, APOS, CDEND, ENT, CDOPEN, PLAIN, SP, NBSP, ASTRAL, C1, TAB, LF, CR, ELEM, PCT, FMT, XESC = range(1, 21)
CLASS_NAMES = {1: "AMP", 2: "LT", 3: "GT", 4: "QUOT", 5: "APOS", 6: "CDEND", 7: "ENT", 8: "CDOPEN", 9: "PLAIN", 10: "SP", 11: "NBSP",
               12: "ASTRAL", 13: "C1", 14: "TAB", 15: "LF", 16: "CR", 17: "ELEM", 18: "PCT", 19: "FMT", 20: "XESC"}
BASE_ALPHA = [AMP, LT, GT, QUOT, APOS, CDEND, ENT, CDOPEN, PLAIN, SP]
CORE_ALPHA = [AMP, LT, GT, QUOT, APOS, CDEND, PLAIN, SP]        # length 3 (thorough): the single-character classes and "]]>"
WIDE_ALPHA = [NBSP, ASTRAL, C1, ELEM, PCT, FMT, XESC]   # XESC: seven characters that look like an OOXML character escape ("_x0041_"): data, not an escape   # FMT: a str.format / printf field such as "{0}" or "%s" (a template layer must not interpret it)                      # PCT: a percent-escape such as "%20" (a URL layer must not decode or re-encode it)                           # ELEM: a complete element such as "<b/>" (makes structure if not escaped)
CTL_ALPHA = [TAB, LF, CR]
# representatives: every ENT representative is a well-formed reference (an unescaped sink decodes it silently), so that the
# outcome of a case depends on its classes only and signatures do not depend on the seed
REPS = {
    AMP: ["&"], LT: ["<"], GT: [">"], QUOT: ['"'], APOS: ["'"], CDEND: ["]]>"],
    ENT: ["&amp;", "&#60;", "&lt;", "&quot;", "&#x26;"], CDOPEN: ["<![CDATA["],
    PLAIN: ["a", "Z", "0", "_", "]", ";", "#", "-", "=", "%", "\\", "\u00e9", "\u6f22", "\ud7ff", "\ue000", "\ufffd", "\x7f"],
    SP: [" "], NBSP: ["\u00a0", "\u3000", "\u2028", "\ufeff"], ASTRAL: ["\U00010000", "\U0001F600", "\U0010FFFF", "\U0002F800", "\U0001FFFE"],
    C1: ["\x80", "\x85", "\x9f"], TAB: ["\t"], LF: ["\n"], CR: ["\r"], ELEM: ["<b/>", "<i></i>", "<br/>"],
    PCT: ["%20", "%41", "%25", "%2F", "%C3%A9"],
    FMT: ["{0}", "{x}", "%s", "%d", "%(a)s", "{{", "}}", "{", "}"],
    XESC: ["_x0041_", "_x0020_", "_x000A_", "_xABCD_", "_x005F_"],
}
_MULTI = [(rep, cls + 32 * (0x110000 + k)) for cls in (CDOPEN, CDEND, ENT, ELEM, PCT, FMT, XESC) for k, rep in enumerate(REPS[cls])]
_MULTI.sort(key=lambda x: -len(x[0]))
_MULTI_START = {m[0][0] for m in _MULTI}
_MULTI_BY_TOK = {tok: rep for rep, tok in _MULTI}
_SINGLE = {"&": AMP, "<": LT, ">": GT, '"': QUOT, "'": APOS, " ": SP, "\t": TAB, "\n": LF, "\r": CR}
_WS = set("\u00a0\u1680\u2000\u2001\u2002\u2003\u2004\u2005\u2006\u2007\u2008\u2009\u200a\u2028\u2029\u202f\u205f\u3000\ufeff\u0085")


def char_class(ch: str) -> int:
    c = _SINGLE.get(ch)
    if c:
        return c
    o = ord(ch)
    if 0x80 <= o <= 0x9F:
        return C1
    if o > 0xFFFF:
        return ASTRAL
    if ch in _WS:
        return NBSP
    return PLAIN


def classify(text: str) -> list[int]:
    res, i, n = [], 0, len(text)
    while i < n:
        ch = text[i]
        if ch in _MULTI_START:
            for rep, tok in _MULTI:
                if text.startswith(rep, i):
                    res.append(tok)
                    i += len(rep)
                    break
            else:
                res.append(char_class(ch) + 32 * ord(ch))
                i += 1
            continue
        res.append(char_class(ch) + 32 * ord(ch))
        i += 1
    return res


def classes_of(tokens: list[int]) -> list[int]:
    return [t % 32 for t in tokens]


def class_names(tokens: list[int]) -> list[str]:
    return [CLASS_NAMES[t % 32] for t in tokens]


def concretise(abs_tokens: list[int], rng: random.Random | None) -> str:
    return "".join(REPS[c][rng.randrange(len(REPS[c])) if rng is not None else 0] for c in abs_tokens)


def case_rng(seed: int, cid: str) -> random.Random:
    return random.Random(zlib.crc32(("%d:%s" % (seed, cid)).encode()))


def admissible(sink: C.Sink, text: str) -> str:
    """The string as given to this entry: characters the entry cannot take by documented contract are replaced by a plain one
    (file names: '/' ; text sinks: TAB / LF / CR, whose documented translation is C04's subject)."""
    if sink.filename:
        text = text.replace("/", "-").replace("\x00", "-")
    if sink.textual:
        text = text.replace("\t", "a").replace("\n", "a").replace("\r", "a")
    return text


# ------------------------------------------------------------------------------------------------ projection from bytes

def _tags(root) -> list[str]:
    out = []
    for el in root.iter():
        t = el.tag
        out.append(t if isinstance(t, str) else ("#comment" if t is etree.Comment else "#pi" if t is etree.PI else "#other"))
    return out


_PARSER = etree.XMLParser(resolve_entities=False, remove_blank_text=False, huge_tree=False)


def project_package(blob: bytes, owner: str) -> dict:
    """{parses, elems, pkg, bad: first member that does not parse, roots: {member: lxml root}} from the saved bytes."""
    z = zipfile.ZipFile(io.BytesIO(blob))
    roots, parses, bad = {}, True, ""
    h = hashlib.sha1()
    for name in sorted(z.namelist()):
        if not (name.endswith(".xml") or name.endswith(".rels") or name.endswith(".vml")):
            continue
        try:
            root = etree.fromstring(z.read(name), _PARSER)
        except etree.XMLSyntaxError as e:
            parses, bad = False, "%s: %s" % (name, str(e)[:120])
            h.update(("%s\0!unparsable\0" % name).encode())
            continue
        roots[name] = root
        h.update(("%s\0%s\0" % (name, "\x01".join(_tags(root)))).encode())
    d, b = os.path.split(owner)
    rels = (d + "/" if d else "") + "_rels/" + b + ".rels"
    own = [n for n in (owner, rels) if n in roots and not n.endswith(CT_NAME)]
    if owner == CT_NAME and owner in roots:
        own = [owner]
    elems = hashlib.sha1("\x02".join("%s\0%s" % (n, "\x01".join(_tags(roots[n]))) for n in own).encode()).hexdigest()[:16] if own else "missing"
    return {"parses": parses, "bad": bad, "elems": elems, "pkg": h.hexdigest()[:16], "roots": roots}


CT_NAME = "[Content_Types].xml"


def xpath_value(roots: dict, xp) -> str | None:
    member, expr = xp
    root = roots.get(member)
    if root is None:
        return None
    res = root.xpath(expr, namespaces=C.NS)
    if len(res) != 1:
        return None
    r = res[0]
    if isinstance(r, str):
        return str(r)
    if len(r) != 0:                                  # an element with element children: markup was made of the string
        return None
    return r.text or ""


# ------------------------------------------------------------------------------------------------ one case

_SCRATCH_N = [0]


def _scratch(work: str) -> str:
    _SCRATCH_N[0] += 1
    d = os.path.join(work, "scratch", "%d_%d" % (os.getpid(), _SCRATCH_N[0]))
    os.makedirs(d, exist_ok=True)
    return d


def _field(val) -> dict:
    return {"set": True, "v": classify(val)} if isinstance(val, str) else {"set": False, "v": []}


_UNSET = {"set": False, "v": []}


def observe(sink: C.Sink, text: str, work: str) -> tuple[dict, dict]:
    """Store `text` through the entry on a fresh presentation and project. Returns (t, info)."""
    import pptx
    t = {"out": "ok", "field": _UNSET, "saved": False, "parses": False, "reopened": False, "elems": "none", "pkg": "none", "field2": _UNSET}
    info = {}
    scratch = _scratch(work)
    try:
        prs = pptx.Presentation()
        sink.setup(prs, scratch)
        obj = sink.at(prs)
        try:
            sink.store(obj, text, scratch)
        except Exception as e:                       # noqa: BLE001 - the exception class IS the observation
            t["out"] = type(e).__name__
            info["error"] = str(e)[:200]
            return t, info
        live = None
        if sink.read is not None:
            try:
                live = sink.read(sink.found(prs))
            except Exception as e:                   # noqa: BLE001
                info["read_error"] = "%s: %s" % (type(e).__name__, str(e)[:160])
            t["field"] = _field(live)
        bio = io.BytesIO()
        try:
            prs.save(bio)
        except Exception as e:                       # noqa: BLE001
            info["save_error"] = "%s: %s" % (type(e).__name__, str(e)[:160])
            return t, info
        t["saved"] = True
        pj = project_package(bio.getvalue(), sink.owner)
        t["parses"], t["elems"], t["pkg"] = pj["parses"], pj["elems"], pj["pkg"]
        if pj["bad"]:
            info["unparsable"] = pj["bad"]
        if sink.read is None and sink.xpath is not None:
            t["field"] = _field(xpath_value(pj["roots"], sink.xpath))
        try:
            prs2 = pptx.Presentation(io.BytesIO(bio.getvalue()))
        except Exception as e:                       # noqa: BLE001
            info["reopen_error"] = "%s: %s" % (type(e).__name__, str(e)[:160])
            return t, info
        t["reopened"] = True
        if sink.read is not None:
            try:
                t["field2"] = _field(sink.read(sink.found(prs2)))
            except Exception as e:                   # noqa: BLE001
                info["reread_error"] = "%s: %s" % (type(e).__name__, str(e)[:160])
        elif sink.xpath is not None:
            try:
                bio2 = io.BytesIO()
                prs2.save(bio2)
                t["field2"] = _field(xpath_value(project_package(bio2.getvalue(), sink.owner)["roots"], sink.xpath))
            except Exception as e:                   # noqa: BLE001
                info["reread_error"] = "%s: %s" % (type(e).__name__, str(e)[:160])
        return t, info
    finally:
        shutil.rmtree(scratch, ignore_errors=True)


PLAIN_TEXT = "Zq"
_BASE: dict = {}


def baseline(sink: C.Sink, work: str) -> dict:
    """Structure after storing a plain string of the same kind (cached per process). The plain case must itself satisfy every clause."""
    b = _BASE.get(sink.id)
    if b is None:
        t, info = observe(sink, PLAIN_TEXT, work)
        want = {"set": True, "v": classify(sink.derive(PLAIN_TEXT))}
        ok = t["out"] == "ok" and t["saved"] and t["parses"] and t["reopened"] and t["elems"] not in ("none", "missing") and \
            (not sink.stored or (t["field"] == want and t["field2"] == want))
        b = {"ok": ok, "elems": t["elems"], "pkg": t["pkg"], "t": t, "info": info}
        _BASE[sink.id] = b
    return b


def run_case(args) -> dict:
    case, work = args
    sink = C.BY_ID[case["sink"]]
    text = admissible(sink, case["text"])
    base = baseline(sink, work)
    if not base["ok"]:
        return {"id": case["id"], "sink": sink.id, "machinery": "plain string fails on %s: %s %s" % (sink.id, base["t"], base["info"])}
    t, info = observe(sink, text, work)
    info["text"] = text
    return {"id": case["id"], "sink": sink.id, "abs": case.get("abs") or [],
            "a": {"op": "Store", "sink": sink.id, "s": classify(text), "want": classify(sink.derive(text)), "stored": bool(sink.stored),
                  "plain": {"elems": base["elems"], "pkg": base["pkg"]}},
            "t": t, "info": info}


def run_chunk(args) -> list[dict]:
    cases, work = args
    return [run_case((c, work)) for c in cases]
