"""C10 driver: builds the constants of spec/ChildOrder.tla from the working tree (declarations + XSD slots) and replays
every TLC transition on a REAL lxml parent with the REAL generated method, recording the resulting child tag sequence.

The observed state is read with plain lxml iteration over the parent's children (Clark names mapped to prefixed tags
with the extractor's own namespace table) - python-pptx is not asked what it wrote.
"""
from __future__ import annotations

import os
from lxml import etree

from mbt import engine as E
from mbt.extract import oxml_decls as D
from mbt.extract import xsd_model as XM

OPS = (("Insert", "insert"), ("Add", "add"), ("PublicAdd", "public_add"), ("GetOrAdd", "get_or_add"),
       ("RemoveAll", "remove"), ("ChangeTo", "change_to"))
METHOD = {"Insert": "_insert_%s", "Add": "_add_%s", "PublicAdd": "add_%s", "GetOrAdd": "get_or_add_%s",
          "RemoveAll": "_remove_%s", "ChangeTo": "get_or_change_to_%s", "Hand": "%s", "HandGetOrAdd": "%s"}

# hand-written get-or-add methods keyed by an index child: class -> (method, child tag); the keys explored
KEYED = {"CT_SeriesComposite": ("get_or_add_dPt_for_point", "c:dPt"), "CT_DLbls": ("get_or_add_dLbl_for_point", "c:dLbl")}
KEYS = (0, 1, 2)
KEYED_BASES = {v[1] for v in KEYED.values()}


def keyed_decls(tag: str, cls: str, members: list[str], uri2pfx: dict, names: dict) -> list[dict]:
    """One declaration per key: child "<base>#<k>", successors read off the behaviour of the method (one sibling at a time)."""
    if cls not in KEYED:
        return []
    meth, base = KEYED[cls]
    out = []
    for k in KEYS:
        child = "%s#%d" % (base, k)
        if child not in members:       # this schema type of the element has no such child (c:ser as CT_SurfaceSer)
            continue
        try:
            parent = _mk(tag, uri2pfx)
            getattr(parent, meth)(k)
            if _project(parent, uri2pfx, True) != [child]:
                continue
        except Exception:
            continue
        succ = []
        for sib in members:
            if sib == child:
                continue
            try:
                parent = _mk(tag, uri2pfx)
                parent.append(_mk(sib, uri2pfx, True))
                getattr(parent, meth)(k)
                if _project(parent, uri2pfx, True) == [child, sib]:
                    succ.append(sib)
            except Exception:
                continue
        out.append({"child": child, "kind": "ZeroOrOne", "succ": succ, "group": [], "ops": ["HandGetOrAdd"], "prop": "%s#%d" % (meth, k),
                    "reachable": True, "callers": {meth: names.get(meth, [])[:4]}, "remove_callers": {}, "custom": ["hand"]})
    return out


def _hand_args() -> dict:
    """Hand-written adders (they place the child themselves with insert_element_before): class -> {method: arguments}."""
    from pptx.enum.shapes import MSO_CONNECTOR_TYPE, PP_PLACEHOLDER
    return {"CT_GroupShape": {
        "add_autoshape": (901, "n", "rect", 0, 0, 1, 1), "add_cxnSp": (901, "n", MSO_CONNECTOR_TYPE.STRAIGHT, 0, 0, 1, 1, False, False),
        "add_freeform_sp": (0, 0, 1, 1), "add_grpSp": (), "add_pic": (901, "n", "d", "rId1", 0, 0, 1, 1),
        "add_placeholder": (901, "n", PP_PLACEHOLDER.BODY, "horz", "full", 1), "add_table": (901, "n", 1, 1, 0, 0, 1, 1),
        "add_textbox": (901, "n", 0, 0, 1, 1)}}


def hand_decls(tag: str, cls: str, members: list[str], uri2pfx: dict, names: dict) -> list[dict]:
    """Declarations read off the BEHAVIOUR of the hand-written adders of this class on the working tree: the child they create on an
    empty parent and the sibling tags (one at a time) they place it before."""
    out = []
    for meth, args in sorted(_hand_args().get(cls, {}).items()):
        try:
            parent = _mk(tag, uri2pfx)
            if not hasattr(parent, meth):
                continue
            getattr(parent, meth)(*args)
            kids = _project(parent, uri2pfx)
        except Exception:
            continue
        if len(kids) != 1 or kids[0] not in members:
            continue
        child, succ = kids[0], []
        for sib in members:
            try:
                parent = _mk(tag, uri2pfx)
                parent.append(_mk(sib, uri2pfx))
                getattr(parent, meth)(*args)
                k2 = _project(parent, uri2pfx)
            except Exception:
                continue
            if len(k2) == 2 and k2[1] == sib and (k2[0] == child) and not (sib == child):
                succ.append(sib)
        out.append({"child": child, "kind": "ZeroOrMore", "succ": succ, "group": [], "ops": ["Hand"], "prop": meth, "reachable": True,
                    "callers": {meth: names.get(meth, [])[:4]}, "remove_callers": {}, "custom": ["hand"]})
    return out


def _slot_json(s: dict, active: set, full_pairs: bool) -> dict:
    """`pairs` = the kinds used for the two-kind orderings of a repeatable mixed slot. Members that no declaration of the
    class names (neither a declared child, nor in a successors tuple, nor in a choice group) are interchangeable for both
    layers of the specification (same slot, never looked up by the insertion code); the quick tier keeps two of them
    as representatives, the thorough tier keeps all."""
    members = list(s["members"])
    inert = [m for m in members if m not in active]
    pairs = members if full_pairs else [m for m in members if m in active] + inert[:2]
    multi = len(members) > 1
    if s["excl"]:
        alts = []
        for b in s["branches"]:
            req = [x["tag"] for x in b if x["req"]]
            if req:
                alts.append(req)
            else:
                alts += [[x["tag"]] for x in b]
        singles = alts
    elif multi:
        # a repeatable mixed slot is populated by one kind (each in turn) or by all kinds; xsd:all by all its members
        alts = ([[m] for m in members] + [members]) if s["rep"] else [members]
        singles = [[m] for m in members]
    else:
        alts = [members]
        singles = [members]
    return {"members": members, "rep": bool(s["rep"]), "req": bool(s["req"]), "excl": bool(s["excl"]), "alts": alts, "singles": singles, "alt": int(s.get("alt", 0)), "br": int(s.get("br", 0)),
            "pairs": pairs if (s["rep"] and multi) else []}


def build_cases(repo: str | None = None, full_pairs: bool = False) -> dict:
    """Constants for TLC + bookkeeping for the check. Regenerated from the working tree at every call."""
    repo = repo or E.REPO
    ex = D.extract()
    xm = XM.XsdModel(repo)
    names = D.named_identifiers(os.path.join(repo, "src", "pptx"))
    cases, not_applicable, no_model, unsupported = [], [], [], []
    hand = _hand_args()
    for e in ex["elements"]:
        if not e["decls"] and e["cls"] not in hand and e["cls"] not in KEYED:
            continue
        cms = xm.content_models(e["tag"])
        if not cms:
            no_model.append(e["tag"])
            continue
        applied = set()
        for cm in cms:
            if any(s.get("co") for s in cm["slots"]) or "repseq" in cm["features"]:
                # content-model shapes the context builder does not construct permitted contexts for (none on the pinned tree)
                unsupported.append("%s as %s (%s)" % (e["tag"], cm["type"], ",".join(cm["features"])))
                continue
            slots_cm = cm["slots"]
            if e["cls"] in KEYED:      # the keyed children are members of their base tag's slot
                base = KEYED[e["cls"]][1]
                slots_cm = [dict(s_, members=list(s_["members"]) + ["%s#%d" % (base, k) for k in KEYS]) if base in s_["members"] else s_
                            for s_ in cm["slots"]]
            rank = {}
            for i, s in enumerate(slots_cm, 1):
                for t in s["members"]:
                    rank[t] = i
            decls = []
            for d in e["decls"]:
                if d["child"] not in rank:
                    continue
                applied.add(d["prop"])
                ops = [op for op, role in OPS if role in d["methods"]]
                r = D.reachability(d, names)
                succ = d["successors"]
                if succ is None:       # behavioural extraction: which members of this content model does _insert_x go before?
                    succ = D.behavioural_successors(e["tag"], d["prop"], [t for s_ in cm["slots"] for t in s_["members"] if t != d["child"]])
                decls.append({"child": d["child"], "kind": d["kind"], "succ": succ, "group": d["group_members"],
                              "ops": ops, "prop": d["prop"], "reachable": r["insert_reachable"],
                              "callers": r["callers"], "remove_callers": r["remove_callers"],
                              "custom": sorted(role for role, m in d["methods"].items() if not m["generated"] and role != "new")})
            decls += hand_decls(e["tag"], e["cls"], list(rank), dict(xm.uri2pfx), names)
            decls += keyed_decls(e["tag"], e["cls"], list(rank), dict(xm.uri2pfx), names)
            if not decls:
                continue
            active = set()
            for d in decls:
                active |= {d["child"]} | set(d["succ"]) | set(d["group"])
            cases.append({"id": len(cases) + 1, "tag": e["tag"], "cls": e["cls"], "xtype": cm["type"], "features": cm["features"],
                          "slots": [_slot_json(s, active, full_pairs) for s in slots_cm], "rank": rank, "decls": decls})
        for d in e["decls"]:
            if d["prop"] not in applied:
                not_applicable.append("%s/%s" % (e["tag"], d["child"]))
    uri2pfx = dict(xm.uri2pfx)
    return {"cases": cases, "uri2pfx": uri2pfx, "not_applicable": not_applicable, "no_model": no_model, "unsupported": unsupported,
            "extraction": ex["extraction"], "n_tags": ex["n_tags"], "n_classes": ex["n_classes"], "n_decls": ex["n_decls"], "n_class_decls": ex["n_class_decls"],
            "xsd_files": xm.files, "handwritten_sites": D.handwritten_sites(os.path.join(repo, "src", "pptx"))}


def tlc_constants(built: dict) -> dict:
    """Only what the specification reads (JSON-native: strings, ints, booleans, sequences, records)."""
    keep_d = ("child", "kind", "succ", "group", "ops", "prop")
    return {"cases": [{"id": c["id"], "tag": c["tag"], "cls": c["cls"], "xtype": c["xtype"], "slots": c["slots"], "rank": c["rank"],
                       "nalt": len({s["alt"] for s in c["slots"] if s["alt"]}),
                       "decls": [{k: d[k] for k in keep_d} for d in c["decls"]]} for c in built["cases"]]}


# ---------------------------------------------------------------------------------------------------------------
# replay on the real classes

URI2PFX: dict = {}   # set by the check before the fan-out (fork inherits it)


def _mk(tag: str, uri2pfx: dict, as_child: bool = False):
    from pptx.oxml import oxml_parser
    from pptx.oxml.ns import _nsmap
    from pptx.oxml.xmlchemy import OxmlElement

    if as_child and tag in KEYED_BASES:  # an element that always has a key (c:idx is required): the plain tag stands for "some other key"
        tag += "#9"
    if "#" in tag:          # a keyed child: the element with a c:idx child of that value
        from pptx.oxml import parse_xml
        base, k = tag.split("#")
        C_ = "http://schemas.openxmlformats.org/drawingml/2006/chart"
        return parse_xml('<%s xmlns:c="%s"><c:idx val="%s"/></%s>' % (base, C_, k, base))
    p, local = tag.split(":", 1)
    if p in _nsmap:
        return OxmlElement(tag)
    uri = next(u for u, pp in uri2pfx.items() if pp == p)
    return oxml_parser.makeelement("{%s}%s" % (uri, local), nsmap={p: uri})


def _project(parent, uri2pfx: dict, keyed: bool = False, only=None) -> list[str]:
    """keyed: children with a c:idx of one of KEYS are named "<tag>#<k>" (only = the elements this applies to; None = all)."""
    out = []
    for ch in parent:
        if not isinstance(ch.tag, str):
            continue
        if ch.tag.startswith("{"):
            uri, local = ch.tag[1:].split("}", 1)
            out.append("%s:%s" % (uri2pfx.get(uri, "?" + uri), local))
        else:
            out.append(ch.tag)
        if keyed:
            idx = ch.find("{http://schemas.openxmlformats.org/drawingml/2006/chart}idx")
            if idx is not None and idx.get("val") in [str(k) for k in KEYS] and (only is None or any(ch is o for o in only)):
                out[-1] += "#" + idx.get("val")
    return out


def replay_one(job) -> dict:
    """job = (tag, kids, op, prop, child) -> {"t": observed kids, "out": "ok" | "raised:<Class>: msg"}"""
    tag, kids, op, prop, child = job[:5]
    deep = len(job) > 5 and job[5]
    uri2pfx = URI2PFX
    parent = _mk(tag, uri2pfx)
    for k in kids:
        parent.append(_mk(k, uri2pfx, True))
    if deep:
        # "whatever siblings exist": the siblings have content of their own - descendants that carry the same names as the children
        # of this parent (a shape's p:nvPr/p:extLst beside the shape tree's p:extLst, a group in a group): only CHILDREN count
        inner = list(dict.fromkeys(list(kids) + [child]))
        for sib in list(parent):
            holder = _mk(kids[0] if kids else child, uri2pfx)
            sib.append(holder)
            for k in inner:
                holder.append(_mk(k, uri2pfx))
    if len(job) > 6 and job[6]:
        # the same parent as ANOTHER serialiser writes it: every namespace bound to a prefix of its own choosing (ns0:, ns1:, ...) -
        # the same document to any XML reader; the parent is re-parsed from that text by the library's parser
        import re as _re
        from pptx.oxml import parse_xml
        xml = etree.tostring(parent).decode()
        for n_, (pfx, uri) in enumerate(sorted({(k_, v_) for el_ in parent.iter() for k_, v_ in el_.nsmap.items() if k_})):
            xml = xml.replace('xmlns:%s="%s"' % (pfx, uri), 'xmlns:zq%d="%s"' % (n_, uri))
            xml = _re.sub(r"(</?)%s:" % _re.escape(pfx), r"\1zq%d:" % n_, xml)
        parent = parse_xml(xml)
    keyed = "#" in child or any("#" in k for k in kids)
    initial = list(parent)
    before = _project(parent, uri2pfx, keyed)
    if before != list(kids):
        return {"t": before, "out": "raised:ProjectionMismatch"}
    name = (METHOD[op] % prop).split("#")[0]
    try:
        m = getattr(parent, name)
        if op == "Insert":
            new = getattr(parent, "_new_" + prop, None)
            elm = new() if new is not None else _mk(child, uri2pfx)
            m(elm)
        elif op == "Hand":
            m(*next(v[prop] for v in _hand_args().values() if prop in v))
        elif op == "HandGetOrAdd":
            m(int(prop.split("#")[1]))
        else:
            m()
        out = "ok"
    except Exception as exc:  # recorded, judged by the check (signature mismatch = not callable without arguments)
        out = "raised:%s: %s" % (type(exc).__name__, str(exc)[:120])
    # a child that a GENERATED method created in a keyed context is the declaration's plain child, whatever index it was born with
    return {"t": _project(parent, uri2pfx, keyed, None if op == "HandGetOrAdd" else initial), "out": out}


def replay_many(jobs: list) -> list[dict]:
    return [replay_one(j) for j in jobs]
