"""Driver for EnumTables (C20): replays Add -> SaveReopen -> ReadBack into the real library through the public API and
projects the observed state after every step. prst / a:gd count / plot elements are read from the serialised part with plain
lxml (never through python-pptx's classes); auto_shape_type, adjustments and chart_type are the public readers."""
from __future__ import annotations

import io
import zipfile

from lxml import etree

A = "http://schemas.openxmlformats.org/drawingml/2006/main"
P = "http://schemas.openxmlformats.org/presentationml/2006/main"
C = "http://schemas.openxmlformats.org/drawingml/2006/chart"
EMPTY = {"ok": True, "exc": "", "prst": "", "gdN": 0, "apiType": "", "adj": [], "adjExact": True, "plots": [], "apiChart": ""}


def _xml_state(slide_xml: bytes, chart_xml: bytes | None, kind: str) -> dict:
    root = etree.fromstring(slide_xml)
    res = {"prst": "", "gdN": 0, "plots": []}
    if kind == "shape":
        sps = root.findall(".//{%s}sp" % P)
        geom = sps[-1].find("{%s}spPr/{%s}prstGeom" % (P, A))
        res["prst"] = geom.get("prst") or ""
        res["gdN"] = len(geom.findall("{%s}avLst/{%s}gd" % (A, A)))
    elif chart_xml is not None:
        pa = etree.fromstring(chart_xml).find(".//{%s}plotArea" % C)
        res["plots"] = [etree.QName(ch).localname for ch in pa if isinstance(ch.tag, str) and etree.QName(ch).localname.endswith("Chart")]
    return res


def _api_state(container, kind: str) -> dict:
    res = {"apiType": "", "adj": [], "adjExact": True, "apiChart": ""}
    shp = list(container.shapes)[-1]
    if kind == "shape":
        res["apiType"] = shp.auto_shape_type.name
        vals = [shp.adjustments[i] for i in range(len(shp.adjustments))]
        res["adj"] = [int(round(v * 100000)) for v in vals]
        res["adjExact"] = all(int(round(v * 100000)) / 100000.0 == v for v in vals)
    else:
        res["apiChart"] = shp.chart.chart_type.name
    return res


_PRESETS: dict = {}


def _reverse_guides(sp_el) -> None:
    """Write the standard's adjustment guides of the shape's preset into its a:avLst with their default values, in reverse order
    (lxml; the values are the standard's, from presetShapeDefinitions.xml)."""
    from lxml import etree
    from mbt.extract.enums import preset_table
    if not _PRESETS:
        _PRESETS.update({p["name"]: p["alts"][0] for p in preset_table()})
    A = "http://schemas.openxmlformats.org/drawingml/2006/main"
    geom = sp_el.find(".//{%s}prstGeom" % A)
    if geom is None:
        return
    av = geom.find("{%s}avLst" % A)
    if av is None:
        av = etree.SubElement(geom, "{%s}avLst" % A)
    for g in list(av):
        av.remove(g)
    for gd in reversed([g for g in _PRESETS.get(geom.get("prst"), []) if g["isVal"]]):
        el = etree.SubElement(av, "{%s}gd" % A)
        el.set("name", gd["n"])
        el.set("fmla", "val %d" % gd["v"])


def _container(slide, host: str):
    if host == "group":
        grp = [s for s in slide.shapes if s.shape_type is not None and s.shape_type.name == "GROUP"]
        return grp[-1]
    return slide


def run_trace(job: tuple) -> dict:
    """job = (id, [actions]); actions = [{op, item, host}]."""
    tid, actions = job
    from pptx import Presentation
    from pptx.enum.chart import XL_CHART_TYPE
    from pptx.enum.shapes import MSO_AUTO_SHAPE_TYPE
    from pptx.util import Emu

    from mbt.extract.enums import chart_data_for

    first = actions[0]
    kind = "shape" if first["op"] == "AddAutoShape" else "chart"
    host = first["host"]
    prs = Presentation()
    slide = prs.slides.add_slide(prs.slide_layouts[6])
    if host == "group":
        slide.shapes.add_group_shape()
    if host == "sibling":
        # a neighbour of the same type, customised: every adjustment moved away from its default, before the shape under test exists
        try:
            if kind == "shape":
                sib = slide.shapes.add_shape(MSO_AUTO_SHAPE_TYPE[first["item"]], Emu(0), Emu(0), Emu(914400), Emu(914400))
                for i in range(len(sib.adjustments)):
                    sib.adjustments[i] = 0.31 + i / 100.0
            else:
                ct0 = XL_CHART_TYPE[first["item"]]
                slide.shapes.add_chart(ct0, Emu(0), Emu(0), Emu(914400), Emu(914400), chart_data_for(ct0))
        except Exception:
            pass            # the addition itself is judged on the shape under test
    steps = []
    last = dict(EMPTY)
    for a in actions:
        o = dict(EMPTY)
        try:
            if a["op"] == "AddAutoShape":
                _container(slide, host).shapes.add_shape(MSO_AUTO_SHAPE_TYPE[a["item"]], Emu(914400), Emu(914400), Emu(1828800), Emu(914400))
            elif a["op"] == "AddChart":
                ct = XL_CHART_TYPE[a["item"]]
                _container(slide, host).shapes.add_chart(ct, Emu(914400), Emu(914400), Emu(4572000), Emu(3429000), chart_data_for(ct))
            elif a["op"] == "SaveReopen":
                buf = io.BytesIO()
                prs.save(buf)
                data = buf.getvalue()
                prs = Presentation(io.BytesIO(data))
                slide = prs.slides[0]
            if a["op"] == "AddAutoShape" and host == "partial":
                _reverse_guides(list(slide.shapes)[-1]._element)
            if a["op"] in ("AddAutoShape", "AddChart"):
                chart_xml = list(_container(slide, host).shapes)[-1].chart.part.blob if kind == "chart" else None
                o.update(_xml_state(slide.part.blob, chart_xml, kind))
                o.update(_api_state(_container(slide, host), kind))
            elif a["op"] == "SaveReopen":
                with zipfile.ZipFile(io.BytesIO(data)) as z:
                    charts = sorted(n for n in z.namelist() if n.startswith("ppt/charts/chart") and n.endswith(".xml"))
                    o.update(_xml_state(z.read("ppt/slides/slide1.xml"), z.read(charts[-1]) if charts else None, kind))
                o.update(_api_state(_container(slide, host), kind))
            else:   # ReadBack: read everything again from the re-opened deck; reading must not change what is read
                chart_xml = list(_container(slide, host).shapes)[-1].chart.part.blob if kind == "chart" else None
                o.update(_xml_state(slide.part.blob, chart_xml, kind))
                o.update(_api_state(_container(slide, host), kind))
        except Exception as ex:  # recorded; judged by TLC (clause Ok)
            o = dict(last)
            o["ok"], o["exc"] = False, type(ex).__name__ + ": " + str(ex)[:120]
        steps.append({"a": a, "o": o})
        last = o
    return {"id": tid, "kind": kind, "item": first["item"], "host": host, "steps": steps}


def cross_reads(_job=None) -> list[dict]:
    """Every token shared by two enumerations that are declared on attributes of the same local name: read at one site, then at the
    other, in THIS process, in both orders (twice over: a value remembered from the first pass would show in the second)."""
    import collections
    from mbt.extract import simpletypes as S
    from mbt.drive import simpletypes as D
    pairs, _xsd, _rows = S.pairs()
    by = collections.defaultdict(list)
    for p in pairs:
        if p["pyKind"] == "xmlenum":
            for st in p["sites"]:
                by[st["attr"].split(":")[-1]].append((p, st))
    out = []

    def read(site, tok):
        el = D.make_element(site)
        el.set(D.clark(site), tok)
        try:
            v = getattr(el, site["prop"])
            return True, type(v).__name__, str(getattr(v, "xml_value", ""))
        except Exception as e:      # noqa: BLE001
            return False, "!" + type(e).__name__, ""
    for _pass in (1, 2):
        for attr, lst in sorted(by.items()):
            for pa, sa in lst:
                for pb, sb in lst:
                    if pa["py"] == pb["py"]:
                        continue
                    common = {m["tok"] for m in pa["pyMembers"] if m["tok"]} & {m["tok"] for m in pb["pyMembers"] if m["tok"]}
                    for tok in sorted(common):
                        read(sa, tok)
                        ok, ty, got = read(sb, tok)
                        out.append({"attr": attr, "tok": tok, "first": "%s:%s@%s" % (sa["pfx"], sa["tag"], sa["attr"]),
                                    "site": "%s:%s@%s" % (sb["pfx"], sb["tag"], sb["attr"]), "enum": pb["py"], "ok": ok, "gotType": ty, "gotTok": got})
    return out
