"""Driver for ChartSheet.tla (C08) and ChartData.tla (C07): real charts through the public API; everything that is
recorded is projected from the SAVED bytes (zipfile + lxml: chart part, embedded workbook) plus the public readers.

Tokens (see spec/ChartSheet.tla): "s:<class>:<k>" strings (concretised here, parsed back by table lookup only),
"n:<canonical decimal>" numbers, "d:YYYY-MM-DD" date labels, "missing", "blank"; "f:<hash>" a FORMULA cell,
"u:<hash>" a string that is none of the strings the driver ever supplied.
Numbers are compared as canonical decimal text (Decimal(text).normalize()), never as floats; every number the driver
supplies has <= 15 significant digits, so repr(float) and XlsxWriter's %.16G denote the same decimal."""
from __future__ import annotations

import datetime
import hashlib
import io
import posixpath
import re
import zipfile
from decimal import Decimal

from lxml import etree

C = "http://schemas.openxmlformats.org/drawingml/2006/chart"
A = "http://schemas.openxmlformats.org/drawingml/2006/main"
P = "http://schemas.openxmlformats.org/presentationml/2006/main"
R = "http://schemas.openxmlformats.org/officeDocument/2006/relationships"
S = "http://schemas.openxmlformats.org/spreadsheetml/2006/main"
PR = "http://schemas.openxmlformats.org/package/2006/relationships"
MC = "http://schemas.openxmlformats.org/markup-compatibility/2006"
NS = {"c": C, "a": A, "p": P, "r": R, "s": S, "mc": MC}


def q(ns, name):
    return "{%s}%s" % (ns, name)


# ------------------------------------------------------------------------------------------------ tokens
STR_CLASSES = {
    "plain": "Item %d",
    "eq": "=%d+1",                      # XlsxWriter write(): a formula
    "arr": "{=SUM(A%d)}",               # XlsxWriter write(): an array formula
    "url": "http://e.x/a b?%d",         # XlsxWriter write(): a hyperlink
    "spaces": "  x %d  ",
    "numlike": "00%d",
    "xmlsp": "a&b<c>\"d'%d]]>",
    "uni": "é漢\U0001F600%d",
    "nl": "a\nb%d",
    "esc": "_x0041_%d",                 # looks like an OOXML character escape
    "Size": "Size",
}
_REV: dict[str, str] = {}


def str_of(tok: str) -> str:
    _, cls, k = tok.split(":")
    if cls == "empty":
        return ""
    return "Size" if cls == "Size" else STR_CLASSES[cls] % int(k)


def _rev():
    if not _REV:
        for cls, tmpl in STR_CLASSES.items():
            if cls == "Size":
                continue
            for k in range(0, 1300):
                _REV[tmpl % k] = "s:%s:%d" % (cls, k)
        _REV[""] = "s:empty:0"
        _REV["Size"] = "s:Size"
    return _REV


def tok_of_str(s) -> str:
    if s is None:
        return "s:empty:0"
    t = _rev().get(s)
    return t if t is not None else "u:" + hashlib.sha1(s.encode("utf-8", "surrogatepass")).hexdigest()[:10]


def canon_num(text: str) -> str:
    """Canonical decimal text of a numeric literal (no floats involved)."""
    try:
        d = Decimal(text.strip())
    except Exception:
        return "x:" + hashlib.sha1(text.encode()).hexdigest()[:10]
    if not d.is_finite():
        return "x:" + str(d)
    if d == 0:
        return "n:0"
    return "n:" + format(d.normalize(), "f")


def num_of(tok: str, parity: int = 0):
    """The Python number a numeric token stands for: int or float alternately for integral values."""
    txt = tok[2:]
    d = Decimal(txt)
    if d == d.to_integral_value() and abs(d) < 10**15:
        return int(d) if parity % 2 == 0 else float(int(d))
    return float(txt)


def date_of(tok: str, parity: int = 0, tod: bool = False):
    """date and datetime objects alternately; a time of day only when the shape says so (class date-with-time)."""
    y, m, d = (int(x) for x in tok[2:].split("-"))
    if tod:
        return datetime.datetime(y, m, d, 13, 14, 15)
    # XlsxWriter reads a datetime.datetime on 1900-01-01 as a time-only value (serial 0.x): kept for the date-with-time class
    return datetime.date(y, m, d) if parity % 2 == 0 or (y, m, d) == (1900, 1, 1) else datetime.datetime(y, m, d)


def val_of(tok: str, parity: int = 0):
    return None if tok == "missing" else num_of(tok, parity)


# ------------------------------------------------------------------------------------------------ chart types
def chart_types() -> dict:
    """name -> (XL_CHART_TYPE member, data kind, writer family, plot element local name)."""
    from pptx.enum.chart import XL_CHART_TYPE as XL
    fam = {
        "area": ("cat", "areaChart", ["AREA", "AREA_STACKED", "AREA_STACKED_100"]),
        "bar": ("cat", "barChart", ["BAR_CLUSTERED", "BAR_STACKED", "BAR_STACKED_100", "COLUMN_CLUSTERED", "COLUMN_STACKED",
                                    "COLUMN_STACKED_100"]),
        "doughnut": ("cat", "doughnutChart", ["DOUGHNUT", "DOUGHNUT_EXPLODED"]),
        "line": ("cat", "lineChart", ["LINE", "LINE_MARKERS", "LINE_MARKERS_STACKED", "LINE_MARKERS_STACKED_100", "LINE_STACKED",
                                      "LINE_STACKED_100"]),
        "pie": ("cat", "pieChart", ["PIE", "PIE_EXPLODED"]),
        "radar": ("cat", "radarChart", ["RADAR", "RADAR_FILLED", "RADAR_MARKERS"]),
        "xy": ("xy", "scatterChart", ["XY_SCATTER", "XY_SCATTER_LINES", "XY_SCATTER_LINES_NO_MARKERS", "XY_SCATTER_SMOOTH",
                                      "XY_SCATTER_SMOOTH_NO_MARKERS"]),
        "bubble": ("bubble", "bubbleChart", ["BUBBLE", "BUBBLE_THREE_D_EFFECT"]),
    }
    out = {}
    for f, (kind, plot, names) in fam.items():
        for n in names:
            out[n] = (getattr(XL, n), kind, f, plot)
    return out


def types_of_kind(kind: str) -> list[str]:
    return [n for n, v in chart_types().items() if v[1] == kind]


# ------------------------------------------------------------------------------------------------ chart data from a shape
def _add_nodes(parent, nodes, cat_kind, top, parity, tod=False):
    for i, n in enumerate(nodes):
        lab = n["lab"]
        if cat_kind == "date":
            label = date_of(lab, parity + i, tod)
        elif cat_kind == "num":
            label = num_of(lab, parity + i)
        else:
            label = str_of(lab)
        c = parent.add_category(label) if top else parent.add_sub_category(label)
        _add_nodes(c, n["subs"], cat_kind, False, parity)


def build_data(shape: dict, parity: int = 0, number_format=None):
    """A CategoryChartData / XyChartData / BubbleChartData holding exactly the data of `shape` (public API only)."""
    from pptx.chart.data import BubbleChartData, CategoryChartData, XyChartData
    kind = shape["kind"]
    nf = {} if number_format is None else {"number_format": number_format}
    if kind == "cat":
        cd = CategoryChartData(**nf)
        _add_nodes(cd, shape["cats"], shape["catKind"], True, parity, bool(shape.get("tod")))
        for i, s in enumerate(shape["series"]):
            cd.add_series(str_of(s["name"]), [val_of(v, parity + i + j) for j, v in enumerate(s["vals"])],
                          **({"number_format": s["nf"]} if s.get("nf") else {}))
        return cd
    cd = XyChartData(**nf) if kind == "xy" else BubbleChartData(**nf)
    _add_xy_series(cd, shape, 0, parity)
    return cd


def _label(n, i, cat_kind, parity, tod=False):
    lab = n["lab"]
    if cat_kind == "date":
        return date_of(lab, parity + i, tod)
    if cat_kind == "num":
        return num_of(lab, parity + i)
    return str_of(lab)


def staged_data(shape: dict, parity: int, render):
    """The SAME data as build_data(shape, parity), but the chart-data object is built in two stages with a rendering in between
    (`render(cd)` makes a throw-away chart from the half-built object): first the left spine of the category tree (first category, its
    first sub-category, ...) and the first series (XY / bubble: its first point); then the remaining sub-categories under the nodes
    that already exist, the remaining categories, points and series.  Nothing the first rendering computed may be remembered."""
    from pptx.chart.data import BubbleChartData, CategoryChartData, XyChartData
    kind = shape["kind"]
    if kind == "cat":
        ck, tod = shape["catKind"], bool(shape.get("tod"))
        cd = CategoryChartData()
        spine = []                       # (node, Category object) along the left spine
        nodes, parent, top = shape["cats"], cd, True
        while nodes:
            c = parent.add_category(_label(nodes[0], 0, ck, parity, tod)) if top else parent.add_sub_category(_label(nodes[0], 0, ck, parity))
            spine.append((nodes[0], c))
            nodes, parent, top = nodes[0]["subs"], c, False
        first = shape["series"][:1]
        for i, s_ in enumerate(first):
            cd.add_series(str_of(s_["name"]), [val_of(v, parity + i + j) for j, v in enumerate(s_["vals"])],
                          **({"number_format": s_["nf"]} if s_.get("nf") else {}))
        render(cd)

        def rest(parent_obj, nodes_, start):
            for i in range(start, len(nodes_)):
                c = parent_obj.add_sub_category(_label(nodes_[i], i, ck, parity))
                rest(c, nodes_[i]["subs"], 0)
        for n, c in reversed(spine):     # deepest first: a node gets its later children after its first child is complete
            rest(c, n["subs"], 1)
        for i in range(1, len(shape["cats"])):
            c = cd.add_category(_label(shape["cats"][i], i, ck, parity, tod))
            rest(c, shape["cats"][i]["subs"], 0)
        extend_data(cd, shape, len(first), parity)
        return cd
    cd = XyChartData() if kind == "xy" else BubbleChartData()
    sers = shape["series"]
    ser0 = None
    if sers:
        s0 = sers[0]
        ser0 = cd.add_series(str_of(s0["name"]), **({"number_format": s0["nf"]} if s0.get("nf") else {}))
        pts = list(enumerate(s0["vals"]))

        def add_pt(j, y):
            x = val_of(s0["xs"][j], parity + j)
            if kind == "xy":
                ser0.add_data_point(x, val_of(y, parity + j))
            else:
                ser0.add_data_point(x, val_of(y, parity + j), val_of(s0["sizes"][j], parity))
        for j, y in pts[:1]:
            add_pt(j, y)
    render(cd)
    if sers:
        for j, y in pts[1:]:
            add_pt(j, y)
        _add_xy_series(cd, shape, 1, parity)
    return cd


def extend_data(cd, shape: dict, start: int, parity: int = 0):
    """Add the series of `shape` from index `start` on to an existing chart-data object (same values build_data would give)."""
    if shape["kind"] == "cat":
        for i, s in enumerate(shape["series"]):
            if i >= start:
                cd.add_series(str_of(s["name"]), [val_of(v, parity + i + j) for j, v in enumerate(s["vals"])],
                              **({"number_format": s["nf"]} if s.get("nf") else {}))
    else:
        _add_xy_series(cd, shape, start, parity)


def _add_xy_series(cd, shape: dict, start: int, parity: int):
    kind = shape["kind"]
    for i, s in enumerate(shape["series"]):
        if i < start:
            continue
        ser = cd.add_series(str_of(s["name"]), **({"number_format": s["nf"]} if s.get("nf") else {}))
        for j, y in enumerate(s["vals"]):
            x = val_of(s["xs"][j], parity + j)
            if kind == "xy":
                ser.add_data_point(x, val_of(y, parity + i + j))
            else:
                ser.add_data_point(x, val_of(y, parity + i + j), val_of(s["sizes"][j], parity + i))


# ------------------------------------------------------------------------------------------------ own .xlsx reader
_RE_CELL = re.compile(r"^([A-Z]{1,3})([0-9]+)$")
_RE_ESC = re.compile(r"_x([0-9A-Fa-f]{4})_")


def col_number(letters: str) -> int:
    n = 0
    for ch in letters:
        n = n * 26 + (ord(ch) - 64)
    return n


def _unesc(s: str) -> str:
    """ECMA-376 22.9.2.19: _xHHHH_ escapes in string values; a literal "_x" is written as _x005F_x."""
    return _RE_ESC.sub(lambda m: chr(int(m.group(1), 16)), s)


def _rels(z: zipfile.ZipFile, partname: str) -> dict:
    d, f = posixpath.split(partname)
    rn = posixpath.join(d, "_rels", f + ".rels")
    if rn not in z.namelist():
        return {}
    root = etree.fromstring(z.read(rn))
    out = {}
    for r in root:
        if r.get("TargetMode") == "External":
            continue
        t = r.get("Target")
        out[r.get("Id")] = (t[1:] if t.startswith("/") else posixpath.normpath(posixpath.join(d, t)), r.get("Type"))
    return out


def read_xlsx(blob: bytes) -> dict:
    """{sheet name: {(col, row): token}} of an .xlsx package; plus "__date1904__" of the workbook."""
    z = zipfile.ZipFile(io.BytesIO(blob))
    names = z.namelist()
    wbname = "xl/workbook.xml"
    for rid, (t, ty) in _rels(z, "").items():
        if ty.endswith("/officeDocument"):
            wbname = t
    wb = etree.fromstring(z.read(wbname))
    wrels = _rels(z, wbname)
    sst = []
    for rid, (t, ty) in wrels.items():
        if ty.endswith("/sharedStrings") and t in names:
            for si in etree.fromstring(z.read(t)).iter(q(S, "si")):
                # rich-text runs: every s:t that is not phonetic
                parts = [x.text or "" for x in si.iter(q(S, "t")) if x.getparent().tag != q(S, "rPh")]
                sst.append(_unesc("".join(parts)))
    pr = wb.find(q(S, "workbookPr"))
    out = {"__date1904__": pr is not None and pr.get("date1904") in ("1", "true")}
    for sh in wb.iter(q(S, "sheet")):
        t = wrels.get(sh.get(q(R, "id")))
        if t is None or t[0] not in names:
            continue
        grid = {}
        for c in etree.fromstring(z.read(t[0])).iter(q(S, "c")):
            m = _RE_CELL.match(c.get("r") or "")
            if not m:
                continue
            pos = (col_number(m.group(1)), int(m.group(2)))
            f, v, ty = c.find(q(S, "f")), c.find(q(S, "v")), c.get("t", "n")
            if f is not None:
                grid[pos] = "f:" + hashlib.sha1((f.text or "").encode()).hexdigest()[:10]
            elif ty == "inlineStr":
                grid[pos] = tok_of_str(_unesc("".join(x.text or "" for x in c.iter(q(S, "t")))))
            elif v is None or v.text is None:
                continue                                    # blank (formatted) cell
            elif ty == "s":
                grid[pos] = tok_of_str(sst[int(v.text)]) if int(v.text) < len(sst) else "u:badsst"
            elif ty == "str":
                grid[pos] = tok_of_str(_unesc(v.text))
            elif ty in ("n",):
                grid[pos] = canon_num(v.text)
            else:
                grid[pos] = "o:%s:%s" % (ty, v.text)      # boolean / error cells: never written by the library
        out[sh.get("name")] = grid
    return out


def dense(grid: dict) -> list:
    if not grid:
        return []
    mc = max(c for c, _ in grid)
    mr = max(r for _, r in grid)
    return [[grid.get((c, r), "blank") for c in range(1, mc + 1)] for r in range(1, mr + 1)]


# ------------------------------------------------------------------------------------------------ chart part projection (C08)
_RE_F = re.compile(r"^(?:'((?:[^']|'')+)'|([^'!]+))!\$([A-Z]{1,3})\$([0-9]+)(?::\$([A-Z]{1,3})\$([0-9]+))?$")
_ABSENT = {"present": False, "parsed": False, "sheetOk": False, "sheet": "", "ref": [0, 0, 0, 0], "ptCount": 0, "lvls": [], "f": ""}


def parse_f(text: str):
    m = _RE_F.match(text or "")
    if not m:
        return None
    sheet = m.group(1).replace("''", "'") if m.group(1) else m.group(2)
    c1, r1 = col_number(m.group(3)), int(m.group(4))
    c2, r2 = (col_number(m.group(5)), int(m.group(6))) if m.group(5) else (c1, r1)
    return sheet, [c1, r1, c2, r2]


def _pt_tok(pt, numeric: bool) -> str:
    v = pt.find(q(C, "v"))
    txt = "" if v is None or v.text is None else v.text
    return canon_num(txt) if numeric else tok_of_str(txt)


def _src(el, sheets: dict) -> dict:
    """One data source (c:tx / c:cat / c:val / c:xVal / c:yVal / c:bubbleSize) -> reference + cached points."""
    if el is None:
        return dict(_ABSENT)
    ref = next((x for x in el if x.tag in (q(C, "strRef"), q(C, "numRef"), q(C, "multiLvlStrRef"))), None)
    if ref is None:                                        # literal data (c:v, c:numLit): nothing is referenced
        return dict(_ABSENT)
    f = ref.find(q(C, "f"))
    numeric = ref.tag == q(C, "numRef")
    cache = next((x for x in ref if x.tag in (q(C, "strCache"), q(C, "numCache"), q(C, "multiLvlStrCache"))), None)
    out = dict(_ABSENT, present=True, f=(f.text or "") if f is not None else "")
    pf = parse_f(out["f"])
    if pf is not None:
        out.update(parsed=True, sheet=pf[0], ref=pf[1], sheetOk=pf[0] in sheets)
    if cache is None:
        out["present"] = False                              # a reference without a cache states nothing to compare
        return out
    pc = cache.find(q(C, "ptCount"))
    out["ptCount"] = int(pc.get("val")) if pc is not None else -1
    if ref.tag == q(C, "multiLvlStrRef"):
        out["lvls"] = [[{"idx": int(p.get("idx")), "v": _pt_tok(p, False)} for p in lvl if p.tag == q(C, "pt")]
                       for lvl in cache if lvl.tag == q(C, "lvl")]
    else:
        out["lvls"] = [[{"idx": int(p.get("idx")), "v": _pt_tok(p, numeric)} for p in cache if p.tag == q(C, "pt")]]
    return out


PLOT_TAGS = {q(C, t) for t in ("area3DChart", "areaChart", "bar3DChart", "barChart", "bubbleChart", "doughnutChart", "line3DChart",
                               "lineChart", "ofPieChart", "pie3DChart", "pieChart", "radarChart", "scatterChart", "stockChart",
                               "surface3DChart", "surfaceChart")}


def plots_of(root) -> list:
    pa = root.find("c:chart/c:plotArea", NS)
    return [] if pa is None else [e for e in pa if e.tag in PLOT_TAGS]


def sers_of(root) -> list:
    """c:ser elements in plot (document) order, then c:order value (the order of the read API and of replace_data)."""
    out = []
    for p in plots_of(root):
        ss = [e for e in p if e.tag == q(C, "ser")]
        ss.sort(key=lambda e: int(e.find(q(C, "order")).get("val")))
        out += ss
    return out


def project_sheet(root, xlsx_blob) -> dict:
    """The observed record of spec/ChartSheet.tla: references, point counts, cached points, and the sheet they name."""
    try:
        sheets = read_xlsx(xlsx_blob) if xlsx_blob is not None else {"__date1904__": False}
    except Exception:           # noqa: BLE001  the member the chart's relationship leads to is not a workbook: it holds no cell (the clauses
        sheets = {"__date1904__": False}      # that compare cached points with cells then fail; nothing is raised here)
    d1904 = root.find(q(C, "date1904"))
    sers = []
    used = set()
    for s in sers_of(root):
        rec = {"tx": _src(s.find(q(C, "tx")), sheets), "cat": _src(s.find(q(C, "cat")), sheets),
               "val": _src(s.find(q(C, "val")), sheets), "x": _src(s.find(q(C, "xVal")), sheets),
               "y": _src(s.find(q(C, "yVal")), sheets), "sz": _src(s.find(q(C, "bubbleSize")), sheets)}
        for p in rec.values():
            if p["present"] and p["parsed"]:
                used.add(p["sheet"])
        sers.append(rec)
    sheet = next(iter(used)) if len(used) == 1 else None
    if len(used) > 1:                                       # never seen: references into several sheets
        for s in sers:
            for p in s.values():
                p["sheetOk"] = p["sheetOk"] and p["sheet"] == sheet
    grid = dense(sheets.get(sheet, {})) if sheet else []
    return {"date1904": d1904 is not None and d1904.get("val", "1") in ("1", "true"), "wbDate1904": bool(sheets.get("__date1904__")),
            "grid": grid, "sers": sers, "hasWorkbook": xlsx_blob is not None}


# ------------------------------------------------------------------------------------------------ saved deck navigation
def charts_in_deck(blob: bytes) -> list:
    """[(slide index, chart partname, chart root, xlsx blob or None)] for every graphic-frame chart, in slide then shape order."""
    z = zipfile.ZipFile(io.BytesIO(blob))
    pres = "ppt/presentation.xml"
    prels = _rels(z, pres)
    root = etree.fromstring(z.read(pres))
    out = []
    for si, sld in enumerate(root.iter(q(P, "sldId"))):
        sname = prels[sld.get(q(R, "id"))][0]
        srels = _rels(z, sname)
        for ch in etree.fromstring(z.read(sname)).iter(q(C, "chart")):
            rid = ch.get(q(R, "id"))
            if rid is None or rid not in srels:
                continue
            cname = srels[rid][0]
            croot = etree.fromstring(z.read(cname))
            crels = _rels(z, cname)
            ext = croot.find(q(C, "externalData"))
            xl = None
            if ext is not None and ext.get(q(R, "id")) in crels:
                xl = z.read(crels[ext.get(q(R, "id"))][0])
            out.append((si, cname, croot, xl))
    return out


# ------------------------------------------------------------------------------------------------ C08 scenarios
PRE = {"cat": {"kind": "cat", "catKind": "str", "tod": False, "cats": [{"lab": "s:plain:901", "subs": [{"lab": "s:plain:902", "subs": []},
                                                                                          {"lab": "s:plain:903", "subs": []}]}],
               "series": [{"name": "s:plain:904", "vals": ["n:1", "n:7"], "xs": [], "sizes": []},
                          {"name": "s:eq:905", "vals": ["n:2.5", "missing"], "xs": [], "sizes": []}]},
       "xy": {"kind": "xy", "catKind": "none", "cats": [],
              "series": [{"name": "s:plain:904", "vals": ["n:1", "n:7", "n:0"], "xs": ["n:1", "n:2.5", "n:-3"], "sizes": []},
                         {"name": "s:plain:905", "vals": ["n:2.5"], "xs": ["n:7"], "sizes": []}]},
       "bubble": {"kind": "bubble", "catKind": "none", "cats": [],
                  "series": [{"name": "s:plain:904", "vals": ["n:1", "n:7", "n:0"], "xs": ["n:1", "n:2.5", "n:-3"], "sizes": ["n:1", "n:1", "n:7"]},
                             {"name": "s:plain:905", "vals": ["n:2.5"], "xs": ["n:7"], "sizes": ["n:0.1"]}]}}


def sheet_chunk(jobs: list) -> list:
    """jobs: [(id, shape, site, type name, parity)] -> observed records; one deck per chunk, saved once, read back from the bytes."""
    import pptx
    from pptx.util import Emu
    types = chart_types()
    prs = pptx.Presentation()
    lay = prs.slide_layouts[6]
    res, live, deferred = [], [], []
    # every other chunk's deck already holds an embedded Excel workbook that is NOT a chart's (an OLE object, /ppt/embeddings/
    # Microsoft_Excel_Sheet1.xlsx): chart numbers and workbook numbers are then not aligned (chart1.xml <-> ...Sheet2.xlsx)
    import zlib
    ole_first = bool(jobs) and zlib.crc32(str(jobs[0][0]).encode()) % 2 == 0
    pre = []
    if ole_first:
        # the slides of the charts come first in the deck, the slide of the OLE object last - but the OLE object is ADDED first (its part
        # is written after the charts' workbooks)
        from pptx.enum.shapes import PROG_ID
        pre = [prs.slides.add_slide(lay) for j in jobs if not j[3].startswith("corpus:")]
        prs.slides.add_slide(lay).shapes.add_ole_object(io.BytesIO(b"PK\x03\x04 an embedded workbook that belongs to no chart"), PROG_ID.XLSX,
                                                       Emu(0), Emu(0), Emu(1000000), Emu(1000000))
    for jid, shape, site, tname, parity in jobs:
        rec = {"id": jid, "site": site, "type": tname, "data": shape, "raised": "", "parity": parity, "oleFirst": ole_first}
        if tname.startswith("corpus:"):                    # a PowerPoint-authored chart: load its deck, replace_data, save, read back
            res.append(rec)
            live.append(None)
            try:
                path, n = tname[7:].rsplit("#", 1)
                cprs = pptx.Presentation(path)
                charts = [sh.chart for sl in cprs.slides for sh in sl.shapes if getattr(sh, "has_chart", False) and sh.has_chart]
                charts[int(n)].replace_data(build_data(shape, parity))
                cbuf = io.BytesIO()
                cprs.save(cbuf)
                got = charts_in_deck(cbuf.getvalue())[int(n)]
                rec["obs"] = project_sheet(got[2], got[3])
            except Exception as e:
                rec["raised"] = "%s: %s" % (type(e).__name__, str(e)[:120])
                rec["obs"] = {"date1904": False, "wbDate1904": False, "grid": [], "sers": [], "hasWorkbook": False}
            continue
        try:
            slide = pre.pop(0) if ole_first else prs.slides.add_slide(lay)
            if site == "ReuseData":
                # ONE chart-data object: a chart is made from its first series, the object is then extended to the whole shape and
                # handed to replace_data - nothing the first use computed may be remembered
                part = dict(shape, series=shape["series"][:1])
                cd = build_data(part, parity)
                gf = slide.shapes.add_chart(types[tname][0], Emu(0), Emu(0), Emu(3000000), Emu(2000000), cd)
                extend_data(cd, shape, 1, parity)
                gf.chart.replace_data(cd)
            elif site == "Replace1904":
                # a chart that declares the 1904 date system (PowerPoint for Mac; written into the part with lxml), then replace_data
                gf = slide.shapes.add_chart(types[tname][0], Emu(0), Emu(0), Emu(3000000), Emu(2000000), build_data(PRE[shape["kind"]], parity))
                cs = gf.chart.part._element
                for old in cs.findall(q(C, "date1904")):
                    cs.remove(old)
                from pptx.oxml import parse_xml
                cs.insert(0, parse_xml('<c:date1904 xmlns:c="%s" val="1"/>' % C))
                gf.chart.replace_data(build_data(shape, parity))
            elif site == "StagedData":
                # ONE chart-data object rendered when half built (left spine of the category tree + first series / first point), then
                # completed and used for the chart under test (staged_data)
                def render(cd_, _t=types[tname][0], _sl=slide):
                    _sl.shapes.add_chart(_t, Emu(0), Emu(0), Emu(1000000), Emu(1000000), cd_)
                    _el = _sl.shapes[-1]._element
                    _el.getparent().remove(_el)                               # the scratch chart leaves the slide (one chart per slide is read back)
                gf = slide.shapes.add_chart(types[tname][0], Emu(0), Emu(0), Emu(3000000), Emu(2000000), staged_data(shape, parity, render))
            else:
                first = PRE[shape["kind"]] if site == "ReplaceData" else shape
                gf = slide.shapes.add_chart(types[tname][0], Emu(0), Emu(0), Emu(3000000), Emu(2000000), build_data(first, parity))
                if site == "ReplaceData":
                    # the charts of a chunk are all CREATED first (several of them from equal data, each from its own chart-data object)
                    # and replaced afterwards, one after the other: a chart's workbook is its own, whatever other charts were made from
                    deferred.append((rec, gf, build_data(shape, parity)))
            live.append(list(prs.slides).index(slide) if ole_first else len(prs.slides) - 1)
        except Exception as e:      # recorded, judged by the caller (an exception is not a workbook)
            rec["raised"] = "%s: %s" % (type(e).__name__, str(e)[:120])
            live.append(None)
        res.append(rec)
    for rec_, gf_, cd_ in deferred:
        try:
            gf_.chart.replace_data(cd_)
        except Exception as e:      # noqa: BLE001
            rec_["raised"] = "%s: %s" % (type(e).__name__, str(e)[:120])
    buf = io.BytesIO()
    prs.save(buf)
    by_slide = {}
    for si, cname, croot, xl in charts_in_deck(buf.getvalue()):
        by_slide.setdefault(si, []).append((croot, xl))
    for rec, si in zip(res, live):
        if "obs" in rec:
            continue
        got = by_slide.get(si) if si is not None else None
        if got and len(got) == 1 and not rec["raised"]:
            rec["obs"] = dates_in_chart_system(project_sheet(got[0][0], got[0][1]), rec["data"])
        else:
            rec["obs"] = {"date1904": False, "wbDate1904": False, "grid": [], "sers": [], "hasWorkbook": False}
            if not rec["raised"]:
                rec["raised"] = "driver: chart part not found in the saved deck"
    return res


def _serial_between_systems(tok: str, wb1904: bool, chart1904: bool) -> str:
    """A date cell holds a serial number in the WORKBOOK's date system; the statement compares "dates as serial numbers in the CHART's
    date system": the same calendar day (and time of day) re-expressed.  1900 system as Excel counts it (day 60 is the phantom
    1900-02-29); tokens that are not numbers are returned unchanged."""
    if not tok.startswith("n:") or wb1904 == chart1904:
        return tok
    d = Decimal(tok[2:])
    whole = int(d.to_integral_value(rounding="ROUND_FLOOR"))
    frac = d - whole
    if wb1904:
        day = datetime.date(1904, 1, 1).toordinal() + whole
    else:
        day = datetime.date(1899, 12, 31).toordinal() + (whole - 1 if whole > 59 else whole)
    if chart1904:
        out = day - datetime.date(1904, 1, 1).toordinal()
    else:
        out = day - datetime.date(1899, 12, 31).toordinal()
        out += 1 if out > 59 else 0
    return canon_num(str(Decimal(out) + frac))


def dates_in_chart_system(obs: dict, shape: dict) -> dict:
    """obs with the date-category cells (column 1 from row 2 of a date-category chart's sheet) as serials in the chart's date system."""
    if shape.get("kind") != "cat" or shape.get("catKind") != "date" or obs["date1904"] == obs["wbDate1904"] or not obs["grid"]:
        return obs
    grid = [list(r) for r in obs["grid"]]
    for r in range(1, len(grid)):
        if grid[r]:
            grid[r][0] = _serial_between_systems(grid[r][0], obs["wbDate1904"], obs["date1904"])
    return dict(obs, grid=grid, dateCellsReexpressed=True)


def column_table() -> list:
    """The real _column_reference for the WHOLE domain 1..16384, as digit sequences (1 = A)."""
    from pptx.chart.xlsx import CategoryWorkbookWriter
    out = []
    for n in range(1, 16385):
        try:
            s = CategoryWorkbookWriter._column_reference(n)
            out.append({"n": n, "digits": [ord(ch) - 64 for ch in s] if s and all("A" <= ch <= "Z" for ch in s) else [0]})
        except Exception:
            out.append({"n": n, "digits": [0]})
    return out


# ================================================================================================ C07: ChartData.tla
XSD_PATH = "spec/ISO-IEC-29500-4/xsd/dml-chart.xsd"
_UNDERSTOOD = {C, A, R, "http://schemas.openxmlformats.org/drawingml/2006/chartDrawing"}
_SCHEMA = []
DATA_TAGS = {q(C, t) for t in ("tx", "cat", "val", "xVal", "yVal", "bubbleSize")}


def _schema():
    if not _SCHEMA:
        import os
        from mbt.engine import REPO
        _SCHEMA.append(etree.XMLSchema(etree.parse(os.path.join(REPO, XSD_PATH))))
    return _SCHEMA[0]


def mce(root):
    """Markup-compatibility preprocessing (ISO/IEC 29500-3) of a parsed part, on a copy: mc:AlternateContent is replaced by
    the first mc:Choice all of whose required namespaces are understood (only the strict chart / drawing namespaces are), else by
    mc:Fallback; elements and attributes of mc:Ignorable namespaces and the mc:* attributes are dropped."""
    import copy
    root = copy.deepcopy(root)
    ign = set()
    for el in root.iter():
        if isinstance(el.tag, str) and el.get(q(MC, "Ignorable")):
            for pfx in el.get(q(MC, "Ignorable")).split():
                if el.nsmap.get(pfx):
                    ign.add(el.nsmap[pfx])
    for ac in list(root.iter(q(MC, "AlternateContent"))):
        parent = ac.getparent()
        chosen = None
        for ch in ac:
            if ch.tag == q(MC, "Choice"):
                req = [ch.nsmap.get(p) for p in (ch.get("Requires") or "").split()]
                if req and all(r in _UNDERSTOOD for r in req):
                    chosen = ch
                    break
        if chosen is None:
            chosen = ac.find(q(MC, "Fallback"))
        at = parent.index(ac)
        kids = list(chosen) if chosen is not None else []
        parent.remove(ac)
        for k, kid in enumerate(kids):
            parent.insert(at + k, kid)
    for el in list(root.iter()):
        if not isinstance(el.tag, str):
            continue
        if etree.QName(el).namespace in ign and el.getparent() is not None:
            el.getparent().remove(el)
            continue
        for a in list(el.attrib):
            if a.startswith("{") and etree.QName(a).namespace in (ign | {MC}):
                del el.attrib[a]
    return etree.fromstring(etree.tostring(root))


_RE_AX = re.compile(r"Element '\{[^}]*\}(?:axId|crossAx)', attribute 'val': '-\d+' is not a valid value of the atomic type 'xs:unsignedInt'")
_RE_EL = re.compile(r"Element '\{[^}]*\}(\w+)'")


def xsd_errors(root) -> list:
    """Sorted error SIGNATURES of the chart part against dml-chart.xsd after MCE preprocessing ([] = valid)."""
    sch = _schema()
    r = mce(root)
    if sch.validate(r):
        return []
    out = set()
    for e in sch.error_log:
        m = e.message
        if _RE_AX.search(m):
            out.add("axId-negative")
            continue
        if "attribute 'val'" in m and ("axId" in m or "crossAx" in m) and "facet" not in m:
            continue                                     # second line libxml2 prints for the same attribute
        el = _RE_EL.search(m)
        name = el.group(1) if el else "?"
        parent = ""
        if "This element is not expected" in m:
            # locate the parent of the offending element for a narrow signature
            try:
                node = r.getroottree().xpath(e.path, namespaces={k: v for k, v in r.nsmap.items() if k}) if e.path else []
                parent = etree.QName(node[0].getparent()).localname + "/" if node else ""
            except Exception:
                parent = ""
            out.add("unexpected-%s%s" % (parent, name))
        elif "Missing child element" in m:
            out.add("missing-child-of-%s" % name)
        elif "is not a valid value" in m or "is not an element of the set" in m or "facet" in m:
            out.add("bad-value-%s" % name)
        else:
            out.add("other-%s:%s" % (name, hashlib.sha1(re.sub(r"'[^']*'", "", m).encode()).hexdigest()[:6]))
    return sorted(out)


def _strip_ws(el):
    for x in el.iter():
        if x.text is not None and not x.text.strip() and len(x):
            x.text = None
        if x.tail is not None and not x.tail.strip():
            x.tail = None


def _hash(el) -> str:
    _strip_ws(el)
    return hashlib.sha1(etree.tostring(el, method="c14n", exclusive=True)).hexdigest()[:12]


def masked_tokens(root) -> dict:
    """Equality tokens of everything OUTSIDE the data: `outer` = the chart part without its plots and without c:externalData
    (the relationship to the workbook may have to be created); per plot `tok` = the plot without its c:ser children; per series
    `fmt` = the c:ser without c:tx/c:cat/c:val/c:xVal/c:yVal/c:bubbleSize and without c:idx/c:order (recorded as numbers)."""
    import copy
    out = {"plots": []}
    for p in plots_of(root):
        sers = []
        ss = [e for e in p if e.tag == q(C, "ser")]
        ss.sort(key=lambda e: int(e.find(q(C, "order")).get("val")))
        for s in ss:
            c = copy.deepcopy(s)
            for ch in list(c):
                if ch.tag in DATA_TAGS or ch.tag in (q(C, "idx"), q(C, "order")):
                    c.remove(ch)
            sers.append({"idx": int(s.find(q(C, "idx")).get("val")), "order": int(s.find(q(C, "order")).get("val")), "fmt": _hash(c)})
        pc = copy.deepcopy(p)
        for ch in list(pc):
            if ch.tag == q(C, "ser"):
                pc.remove(ch)
        out["plots"].append({"kind": etree.QName(p).localname, "tok": _hash(pc), "sers": sers})
    oc = copy.deepcopy(root)
    for p in plots_of(oc):
        p.getparent().remove(p)
    for e in oc.findall(q(C, "externalData")):
        oc.remove(e)
    out["outer"] = _hash(oc)
    return out


def _lab(label, cat_kind) -> str:
    return canon_num(label) if cat_kind in ("num", "date") else tok_of_str(label)


def _safe(fn, default):
    try:
        return fn()
    except Exception as e:       # an exception inside a reader is a wrong answer, recorded as such
        return default(type(e).__name__)


def read_chart(chart, cat_kind: str) -> list:
    """What the public read API reports, per plot: flattened labels, leaf labels, levels, depth; per series name and values."""
    out = []
    for plot in chart.plots:
        cats = plot.categories
        rec = {
            "depth": _safe(lambda: int(cats.depth), lambda n: -1),
            "leaf": _safe(lambda: [_lab(c.label, cat_kind) for c in cats], lambda n: ["raised:" + n]),
            "flat": _safe(lambda: [[_lab(x, cat_kind) for x in t] for t in cats.flattened_labels], lambda n: [["raised:" + n]]),
            "levels": _safe(lambda: [[{"idx": int(c.idx), "lab": _lab(c.label, cat_kind)} for c in lvl] for lvl in cats.levels],
                            lambda n: [[{"idx": -1, "lab": "raised:" + n}]]),
            "sers": [],
        }
        for s in plot.series:
            rec["sers"].append({
                "name": _safe(lambda: tok_of_str(s.name), lambda n: "raised:" + n),
                "vals": _safe(lambda: ["none" if v is None else canon_num(repr(v)) for v in s.values], lambda n: ["raised:" + n]),
            })
        out.append(rec)
    return out


def observe(chart, cat_kind: str) -> dict:
    """The state record of spec/ChartData.tla after a step: raw tokens from the SERIALISED part + the read API."""
    root = etree.fromstring(chart.part.blob)
    m = masked_tokens(root)
    d1904 = root.find(q(C, "date1904"))
    reads = _safe(lambda: read_chart(chart, cat_kind), lambda n: None)
    plots = []
    for k, p in enumerate(m["plots"]):
        r = reads[k] if reads is not None and k < len(reads) else {"depth": -1, "leaf": ["raised:read"], "flat": [["raised:read"]],
                                                                   "levels": [], "sers": []}
        sers = []
        for j, s in enumerate(p["sers"]):
            rs = r["sers"][j] if j < len(r["sers"]) else {"name": "raised:read", "vals": ["raised:read"]}
            sers.append({"idx": s["idx"], "order": s["order"], "fmt": s["fmt"], "name": rs["name"], "vals": rs["vals"]})
        plots.append({"kind": p["kind"], "tok": p["tok"], "depth": r["depth"], "leaf": r["leaf"], "flat": r["flat"], "levels": r["levels"],
                      "sers": sers, "nread": len(r["sers"])})
    ctype = _safe(lambda: chart.chart_type.name, lambda n: "raised:" + n) if m["plots"] else "none"
    return {"raised": "", "date1904": d1904 is not None and d1904.get("val", "1") in ("1", "true"), "xsd": xsd_errors(root),
            "outer": m["outer"], "plots": plots, "ctype": ctype, "nplotsRead": -1 if reads is None else len(reads)}


NUMFMTS = ["General", "0.00", "#,##0", "0.0%", "yyyy\\-mm\\-dd", "0.0E+00", "[Red]0.0;[Blue]-0.0"]


def with_numfmts(shape: dict, salt: int) -> dict:
    """Custom number formats on the series (statement: 'custom number formats'); not part of what is read back."""
    import copy
    s = copy.deepcopy(shape)
    for i, ser in enumerate(s["series"]):
        k = (i + salt) % (len(NUMFMTS) + 2)
        if k < len(NUMFMTS):
            ser["nf"] = NUMFMTS[k]
    return s


def apply_format(chart, i: int):
    """Format(i): a fill colour depending on i on series i (plot order, then c:order), data labels / a marker size where the
    series class has them - all through the public API."""
    from pptx.dml.color import RGBColor
    k = 0
    for plot in chart.plots:
        sers = sorted(plot.series, key=lambda s: s._element.order.val)     # the order replace_data uses (read API: document order)
        for s in sers:
            k += 1
            if k == i:
                s.format.fill.solid()
                s.format.fill.fore_color.rgb = RGBColor(16 * i % 256, 200 - i, 30 + i)
                s.format.line.width = 12700 * i
                if hasattr(s, "data_labels") and i % 2 == 1:
                    s.data_labels.show_value = True
                if hasattr(s, "marker") and i % 2 == 0:
                    s.marker.size = 5 + i
                return
    raise IndexError("no series %d" % i)


def widen(shape: dict, nser: int, reps: int) -> dict:
    """The same kind of data with `nser` series and the categories / points repeated `reps` times (50 series, hundreds of points)."""
    import copy
    s = copy.deepcopy(shape)
    if not s["series"]:
        return s

    def bump(tok, by):
        if tok.startswith("s:") and tok.count(":") == 2 and not tok.startswith("s:empty"):
            a, b, c = tok.split(":")
            return "%s:%s:%d" % (a, b, (int(c) + by) % 1300)
        return tok

    def bump_nodes(nodes, by):
        return [{"lab": bump(n["lab"], by), "subs": bump_nodes(n["subs"], by)} for n in nodes]
    if s["kind"] == "cat":
        s["cats"] = [n for r in range(reps) for n in bump_nodes(shape["cats"], 7 * r)]
    base = shape["series"]
    s["series"] = []
    for i in range(nser):
        b = base[i % len(base)]
        s["series"].append({"name": bump(b["name"], 13 * (i // len(base))), "vals": b["vals"] * reps, "xs": b["xs"] * reps,
                            "sizes": b["sizes"] * reps, **({"nf": b["nf"]} if b.get("nf") else {})})
    return s


def run_history(job) -> dict:
    """job = {id, h: [actions], shapes: {id: shape}, type: chart type name or None, corpus: (deck path, chart index) or None}.
    Actions: {op: add|load|format|replace|reopen, d: shape id, i: series}. Returns the trace for Trace_ChartData."""
    import pptx
    from pptx.util import Emu
    types = chart_types()
    h = job["h"]
    tr = {"id": job["id"], "type": job.get("type") or "", "init": None, "steps": [], "gen": h[0]["op"] == "add"}
    prs = chart = None
    cat_kind = "str"
    where = None

    def find_chart(prs_):
        if where is None:        # the chart under test sits on the FIRST slide (a staged rendering adds scratch charts on further slides)
            return prs_.slides[0].shapes[-1].chart
        n = 0
        for sl in prs_.slides:
            for sh in sl.shapes:
                if getattr(sh, "has_chart", False) and sh.has_chart:
                    if n == where:
                        return sh.chart
                    n += 1
        raise KeyError("chart %d not in deck" % where)
    for a in h:
        rec = {"a": a}
        try:
            if a["op"] == "add":
                prs = pptx.Presentation()
                slide = prs.slides.add_slide(prs.slide_layouts[6])
                shape = job["shapes"][str(a["d"])]
                cat_kind = shape["catKind"]
                gf = slide.shapes.add_chart(types[job["type"]][0], Emu(0), Emu(0), Emu(3000000), Emu(2000000), build_data(shape, a["d"]))
                chart = gf.chart
            elif a["op"] == "load":
                prs = pptx.Presentation(job["corpus"][0])
                where = job["corpus"][1]
                chart = find_chart(prs)
                tr["init"] = observe(chart, "str")
                continue
            elif a["op"] == "replace":
                shape = job["shapes"][str(a["d"])]
                cat_kind = shape["catKind"]
                if a.get("how") == "staged":
                    ctype = chart.chart_type

                    def render(cd_, _prs=prs, _ct=ctype):
                        sl = _prs.slides.add_slide(_prs.slide_layouts[6])
                        sl.shapes.add_chart(_ct, Emu(0), Emu(0), Emu(1000000), Emu(1000000), cd_)
                    data = staged_data(shape, a["d"], render)
                else:
                    data = build_data(shape, a["d"])
                chart.replace_data(data)
            elif a["op"] == "format":
                apply_format(chart, a["i"])
            elif a["op"] == "reopen":
                buf = io.BytesIO()
                prs.save(buf)
                buf.seek(0)
                prs = pptx.Presentation(buf)
                chart = find_chart(prs)
            rec["t"] = observe(chart, cat_kind)
        except Exception as e:
            rec["t"] = {"raised": type(e).__name__, "date1904": False, "xsd": [], "outer": "", "plots": [], "ctype": "none", "nplotsRead": 0,
                        "msg": str(e)[:100]}
            tr["steps"].append(rec)
            break
        tr["steps"].append(rec)
    return tr


def corpus_charts() -> list:
    """[(deck path, chart index in slide/shape order, first plot element name, [series per plot])] of the PowerPoint-authored chart decks."""
    import glob
    import os
    from mbt.engine import REPO
    out = []
    for f in sorted(glob.glob(os.path.join(REPO, "features/steps/test_files/cht-*.pptx"))):
        with open(f, "rb") as fh:
            for n, (si, cname, croot, xl) in enumerate(charts_in_deck(fh.read())):
                ps = plots_of(croot)
                out.append((f, n, etree.QName(ps[0]).localname if ps else "", [len(p.findall(q(C, "ser"))) for p in ps],
                            [etree.QName(p).localname for p in ps]))
    return out
