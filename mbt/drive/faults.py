"""Fault injection on the members (name -> bytes) of a real package, for C16.
Every function returns a list of (fault-id, new members | special) for ALL applicable locations."""
from __future__ import annotations

import posixpath
import re

from lxml import etree

from mbt.drive.opc import CT_NS, REL_NS, _RELS_RE

RT_OFFICE = "http://schemas.openxmlformats.org/officeDocument/2006/relationships/officeDocument"
RT_CORE = "http://schemas.openxmlformats.org/package/2006/relationships/metadata/core-properties"
RT_SLIDE = "http://schemas.openxmlformats.org/officeDocument/2006/relationships/slide"
CT_SLIDE = "application/vnd.openxmlformats-officedocument.presentationml.slide+xml"
NS_P = "http://schemas.openxmlformats.org/presentationml/2006/main"
NS_R = "http://schemas.openxmlformats.org/officeDocument/2006/relationships"


def _ser(root) -> bytes:
    return etree.tostring(root, xml_declaration=True, encoding="UTF-8", standalone=True)


def rels_members(members):
    return [n for n in members if _RELS_RE.match(n)]


def src_of(rels_name: str) -> str:
    m = _RELS_RE.match(rels_name)
    d, f = m.group(1), m.group(2)
    return "/" + ((d + "/") if d else "") + f


def rels_name_of(partname: str) -> str:
    head, _, last = partname.rpartition("/")
    return (head + "/_rels/" + last + ".rels")[1:]


def resolve(src: str, target: str) -> str:
    base = posixpath.dirname(src) if src != "/" else "/"
    return posixpath.normpath(posixpath.join(base, target))


def iter_rels(members):
    """(rels member, index, element attrs, resolved target or None)"""
    for rn in rels_members(members):
        root = etree.fromstring(members[rn])
        for i, el in enumerate(root):
            if not isinstance(el.tag, str):
                continue
            ext = el.get("TargetMode") == "External"
            yield rn, i, dict(el.attrib), (None if ext else resolve(src_of(rn), el.get("Target")))


def main_part(members) -> str | None:
    rn = "_rels/.rels"
    if rn not in members:
        return None
    for el in etree.fromstring(members[rn]):
        if isinstance(el.tag, str) and el.get("Type") == RT_OFFICE:
            return resolve("/", el.get("Target"))
    return None


def ct_of(members, partname: str) -> str | None:
    if "[Content_Types].xml" not in members:
        return None
    root = etree.fromstring(members["[Content_Types].xml"])
    dflt = None
    for el in root:
        if not isinstance(el.tag, str):
            continue
        ln = etree.QName(el).localname
        if ln == "Override" and el.get("PartName").lower() == partname.lower():
            return el.get("ContentType")
        if ln == "Default" and partname.lower().endswith("." + el.get("Extension").lower()):
            dflt = el.get("ContentType")
    return dflt


def slide_sequence(members, tok) -> list[str] | None:
    """Expected slide payload tokens in presentation order, read from bytes; None when some sldId does not
    lead to a present slide part (slide traversal is then outside what the property promises)."""
    mp = main_part(members)
    if mp is None or mp[1:] not in members:
        return None
    try:
        prs = etree.fromstring(members[mp[1:]])
    except etree.XMLSyntaxError:
        return None
    rn = rels_name_of(mp)
    relmap = {}
    if rn in members:
        for el in etree.fromstring(members[rn]):
            if isinstance(el.tag, str) and el.get("TargetMode") != "External":
                relmap[el.get("Id")] = resolve(mp, el.get("Target"))
    out = []
    for sld in prs.iterfind("{%s}sldIdLst/{%s}sldId" % (NS_P, NS_P)):
        rid = sld.get("{%s}id" % NS_R)
        tgt = relmap.get(rid)
        if tgt is None or tgt[1:] not in members or ct_of(members, tgt) != CT_SLIDE:
            return None
        out.append(tok(members[tgt[1:]]))
    return out


# ------------------------------------------------------------------------------ faults
def f_dangling(members):
    for rn, i, attrs, tgt in iter_rels(members):
        if tgt is None:
            continue
        root = etree.fromstring(members[rn])
        root[i].set("Target", posixpath.join(posixpath.dirname(root[i].get("Target")), "NULL"))
        m = dict(members)
        m[rn] = _ser(root)
        yield "dangling:%s#%s" % (rn, attrs.get("Id")), m


def f_dangling2(members):
    """Two relationships of one source lead to the SAME absent part (a deleted image two shapes used; two voided targets)."""
    by_item = {}
    for rn, i, attrs, tgt in iter_rels(members):
        if tgt is not None:
            by_item.setdefault(rn, []).append((i, attrs.get("Id")))
    for rn, lst in by_item.items():
        for (i, a), (j, b) in zip(lst, lst[1:]):
            root = etree.fromstring(members[rn])
            root[i].set("Target", "NULL")
            root[j].set("Target", "NULL")
            m = dict(members)
            m[rn] = _ser(root)
            yield "dangling2:%s#%s+%s" % (rn, a, b), m


def f_delpart(members):
    """A part that relationships lead to is absent (every relationship to it dangles, from however many sources)."""
    mp = main_part(members)
    targeted = {}
    for rn, i, attrs, tgt in iter_rels(members):
        if tgt is not None:
            targeted[tgt] = targeted.get(tgt, 0) + 1
    for tgt, n in sorted(targeted.items()):
        if tgt == mp or tgt[1:] not in members:
            continue
        m = dict(members)
        del m[tgt[1:]]
        m.pop(rels_name_of(tgt), None)
        yield "delpart:%s(x%d)" % (tgt, n), m


def f_delrels(members):
    for rn in rels_members(members):
        if rn == "_rels/.rels":
            continue
        m = dict(members)
        del m[rn]
        yield "delrels:%s" % rn, m


def f_nocore(members):
    rn = "_rels/.rels"
    if rn not in members:
        return
    root = etree.fromstring(members[rn])
    for i, el in enumerate(root):
        if isinstance(el.tag, str) and el.get("Type") == RT_CORE:
            tgt = resolve("/", el.get("Target"))[1:]
            m = dict(members)
            m.pop(tgt, None)
            yield "nocore:part-only", m
            r2 = etree.fromstring(members[rn])
            r2.remove(r2[i])
            m2 = dict(members)
            m2[rn] = _ser(r2)
            yield "nocore:rel-only", m2
            m3 = dict(m2)
            m3.pop(tgt, None)
            yield "nocore:both", m3
            return


def f_caseflip(members):
    if "[Content_Types].xml" not in members:
        return
    root = etree.fromstring(members["[Content_Types].xml"])
    for i, el in enumerate(root):
        if not isinstance(el.tag, str):
            continue
        r2 = etree.fromstring(members["[Content_Types].xml"])
        ln = etree.QName(el).localname
        if ln == "Default":
            r2[i].set("Extension", el.get("Extension").swapcase())
            fid = "flipDefault:%s" % el.get("Extension")
        else:
            pn = el.get("PartName")
            head, _, last = pn.rpartition("/")
            r2[i].set("PartName", head + "/" + last.swapcase())
            fid = "flipOverride:%s" % pn
        m = dict(members)
        m["[Content_Types].xml"] = _ser(r2)
        yield fid, m


def f_unknown_ct(members, known_types):
    """Parts python-pptx has no class for get another unknown type; an extra unknown-typed part is related."""
    if "[Content_Types].xml" not in members:
        return
    root = etree.fromstring(members["[Content_Types].xml"])
    for i, el in enumerate(root):
        if isinstance(el.tag, str) and etree.QName(el).localname == "Override" and el.get("ContentType") not in known_types:
            r2 = etree.fromstring(members["[Content_Types].xml"])
            r2[i].set("ContentType", "application/x-verif-unknown+xml")
            m = dict(members)
            m["[Content_Types].xml"] = _ser(r2)
            yield "unknownCt:%s" % el.get("PartName"), m
    mp = main_part(members)
    if mp and rels_name_of(mp) in members:
        m = dict(members)
        m["customThing/item1.dat"] = b"\x00\x01\x02 arbitrary"
        r2 = etree.fromstring(members["[Content_Types].xml"])
        ov = etree.SubElement(r2, "{%s}Override" % CT_NS)
        ov.set("PartName", "/customThing/item1.dat")
        ov.set("ContentType", "application/x-verif-unknown")
        m["[Content_Types].xml"] = _ser(r2)
        rr = etree.fromstring(members[rels_name_of(mp)])
        rel = etree.SubElement(rr, "{%s}Relationship" % REL_NS)
        rel.set("Id", "rIdVerif99")
        rel.set("Type", "http://example.invalid/rel/custom")
        rel.set("Target", "/customThing/item1.dat")
        m[rels_name_of(mp)] = _ser(rr)
        yield "unknownCt:added-part", m


def f_extra(members):
    m = dict(members)
    m["docProps/stray.bin"] = b"stray bytes"
    yield "extra:no-content-type", m
    slides = sorted(n for n in members if re.match(r"^ppt/slides/slide\d+\.xml$", n))
    if slides and "[Content_Types].xml" in members:
        m2 = dict(members)
        m2["ppt/slides/slide99.xml"] = members[slides[0]]
        r2 = etree.fromstring(members["[Content_Types].xml"])
        ov = etree.SubElement(r2, "{%s}Override" % CT_NS)
        ov.set("PartName", "/ppt/slides/slide99.xml")
        ov.set("ContentType", CT_SLIDE)
        m2["[Content_Types].xml"] = _ser(r2)
        yield "extra:slide99", m2


def f_casetwin(members):
    """An unreferenced extra member whose name differs from a reachable part's only in letter case (a stale copy left by another tool),
    with other content, stored after / before the real member: member names are compared as spelled, the part reads as before."""
    slides = sorted(n for n in members if re.match(r"^ppt/slides/slide\d+\.xml$", n))
    media = sorted(n for n in members if re.match(r"^ppt/media/[^/]+\.[a-z]+$", n))
    for real in slides[:1] + media[:1]:
        head, _, last = real.rpartition("/")
        twin = head + "/" + last[0].upper() + last[1:]
        if twin == real or twin in members:
            continue
        other = members[real].replace(b"</p:sld>", b"<!-- stale copy --></p:sld>") if real in slides else members[real] + b"\x00stale"
        after = dict(members)
        after[twin] = other
        yield "extra:case-twin-after:%s" % real, after
        before = {}
        for n, b in members.items():
            if n == real:
                before[twin] = other
            before[n] = b
        yield "extra:case-twin-before:%s" % real, before


def rename_parts(members, mapping: dict[str, str]):
    """Consistently rename parts (absolute names): member, rels item, overrides, every relationship target."""
    m = {}
    for n, b in members.items():
        if _RELS_RE.match(n):
            src = src_of(n)
            nsrc = mapping.get(src, src)
            root = etree.fromstring(b)
            for el in root:
                if not isinstance(el.tag, str) or el.get("TargetMode") == "External":
                    continue
                tgt = resolve(src, el.get("Target"))
                ntgt = mapping.get(tgt, tgt)
                if ntgt != tgt or nsrc != src:
                    base = posixpath.dirname(nsrc) if nsrc != "/" else "/"
                    el.set("Target", posixpath.relpath(ntgt, base) if base != "/" else ntgt[1:])
            m[rels_name_of(nsrc) if nsrc != "/" else n] = _ser(root)
        elif n == "[Content_Types].xml":
            root = etree.fromstring(b)
            for el in root:
                if isinstance(el.tag, str) and etree.QName(el).localname == "Override" and el.get("PartName") in mapping:
                    el.set("PartName", mapping[el.get("PartName")])
            m[n] = _ser(root)
        else:
            m[mapping.get("/" + n, "/" + n)[1:]] = b
    return m


def f_rename_slides(members):
    slides = sorted((n for n in members if re.match(r"^ppt/slides/slide\d+\.xml$", n)),
                    key=lambda n: int(re.search(r"(\d+)\.xml$", n).group(1)))
    if not slides:
        return
    k = len(slides)
    gap = {"/" + n: "/ppt/slides/slide%d.xml" % (7 + 3 * i) for i, n in enumerate(slides)}
    yield "renameSlides:gaps", rename_parts(members, gap)
    if k >= 2:
        tmp = {"/" + n: "/ppt/slides/slideTMP%d.xml" % i for i, n in enumerate(slides)}
        rev = {"/ppt/slides/slideTMP%d.xml" % i: "/" + slides[k - 1 - i] for i in range(k)}
        yield "renameSlides:reversed", rename_parts(rename_parts(members, tmp), rev)
        rot = {"/ppt/slides/slideTMP%d.xml" % i: "/ppt/slides/slide%d.xml" % (((i + 1) % k) + 2) for i in range(k)}
        yield "renameSlides:rotated+1", rename_parts(rename_parts(members, tmp), rot)
    odd = {"/" + n: "/ppt/slides/Folie %d.xml" % (i + 1) for i, n in enumerate(slides)}
    yield "renameSlides:otherStem", rename_parts(members, odd)


def f_refusals(members):
    """Not a package / not a presentation."""
    m = dict(members)
    m.pop("[Content_Types].xml", None)
    yield "noContentTypes", m
    m = dict(members)
    m.pop("_rels/.rels", None)
    yield "noPackageRels", m
    rn = "_rels/.rels"
    mp = main_part(members)
    if rn in members and mp:
        root = etree.fromstring(members[rn])
        for el in list(root):
            if isinstance(el.tag, str) and el.get("Type") == RT_OFFICE:
                root.remove(el)
        m = dict(members)
        m[rn] = _ser(root)
        yield "noOfficeDocRel", m
        m = dict(members)
        m.pop(mp[1:], None)
        yield "noMainPart", m
        if "[Content_Types].xml" in members:
            for newt in ("application/vnd.openxmlformats-officedocument.wordprocessingml.document.main+xml",
                         "application/vnd.openxmlformats-officedocument.presentationml.template.main+xml",
                         "application/xml"):
                root = etree.fromstring(members["[Content_Types].xml"])
                hit = False
                for el in root:
                    if isinstance(el.tag, str) and etree.QName(el).localname == "Override" and el.get("PartName").lower() == mp.lower():
                        el.set("ContentType", newt)
                        hit = True
                if hit:
                    m = dict(members)
                    m["[Content_Types].xml"] = _ser(root)
                    yield "wrongMainType:%s" % newt.split(".")[-1], m
            # main part loses its content type altogether
            root = etree.fromstring(members["[Content_Types].xml"])
            for el in list(root):
                if isinstance(el.tag, str) and etree.QName(el).localname == "Override" and el.get("PartName").lower() == mp.lower():
                    root.remove(el)
            for el in list(root):
                if isinstance(el.tag, str) and etree.QName(el).localname == "Default" and el.get("Extension").lower() == "xml":
                    root.remove(el)
            m = dict(members)
            m["[Content_Types].xml"] = _ser(root)
            yield "noContentTypeForXmlParts", m


def all_single_faults(members, known_types) -> list[tuple[str, dict]]:
    out = [("none", dict(members))]
    for gen in (f_dangling, f_dangling2, f_delpart, f_delrels, f_nocore, f_caseflip, f_extra, f_casetwin, f_rename_slides, f_refusals):
        out += list(gen(members))
    out += list(f_unknown_ct(members, known_types))
    return out
