"""Driver for Props.tla (C09): replays assignment sequences on real python-pptx objects through the PUBLIC API, logs the
canonical reading of every catalogued property after every step, the exact-arithmetic quantum monitor and the
explicit-setting flag (plain lxml XPath on the object's element)."""
from __future__ import annotations

import importlib
import io
import zlib
import math
import os
import re
from fractions import Fraction as F

from lxml import etree as _etree

from mbt.catalog import props as CAT

NS = {"a": "http://schemas.openxmlformats.org/drawingml/2006/main",
      "p": "http://schemas.openxmlformats.org/presentationml/2006/main",
      "c": "http://schemas.openxmlformats.org/drawingml/2006/chart",
      "r": "http://schemas.openxmlformats.org/officeDocument/2006/relationships"}
REPO = (os.environ.get("VERIF_REPO") or "/repo")
PNG = os.path.join(REPO, "tests/test_files/python-powered.png")

# ------------------------------------------------------------------------------------------------ fixture decks
_DECKS: dict = {}


def _deck_shapes():
    import pptx
    from pptx.enum.shapes import MSO_CONNECTOR, MSO_SHAPE
    from pptx.util import Inches
    prs = pptx.Presentation()
    for _twin in (0, 1):            # slides[1] is an identical copy: every object has a TWIN of its kind at the same path on it
        _fill_shapes_slide(prs, pptx, MSO_CONNECTOR, MSO_SHAPE, Inches)
    _drop_layouts(prs, keep=(1,))
    return prs


def _fill_shapes_slide(prs, pptx, MSO_CONNECTOR, MSO_SHAPE, Inches):
    s = prs.slides.add_slide(prs.slide_layouts[1])                       # shapes[0] title, [1] body placeholder
    sh = s.shapes
    sh.add_shape(MSO_SHAPE.ROUNDED_RECTANGLE, Inches(1), Inches(1), Inches(2), Inches(1))           # [2]
    tb = sh.add_textbox(Inches(1), Inches(3), Inches(3), Inches(1))                                 # [3]
    tb.text_frame.text = "hello"
    sh.add_picture(PNG, Inches(5), Inches(1))                                                       # [4]
    sh.add_connector(MSO_CONNECTOR.STRAIGHT, Inches(1), Inches(5), Inches(3), Inches(6))            # [5]
    g = sh.add_group_shape()                                                                        # [6]
    g.shapes.add_shape(MSO_SHAPE.RECTANGLE, Inches(6), Inches(4), Inches(1), Inches(1))
    sh.add_table(2, 2, Inches(4), Inches(5), Inches(4), Inches(1))                                  # [7]
    sh.add_shape(MSO_SHAPE.RIGHT_ARROW, Inches(0.2), Inches(6), Inches(2), Inches(1))               # [8] two adjustments
    a = sh.add_shape(MSO_SHAPE.OVAL, Inches(8), Inches(1), Inches(1), Inches(1))                    # [9] solid fill
    a.fill.solid()
    b = sh.add_shape(MSO_SHAPE.OVAL, Inches(8), Inches(2.5), Inches(1), Inches(1))                  # [10] gradient fill
    b.fill.gradient()
    # stops strictly inside the range (as an authored gradient has them): a new position may pass the neighbouring stop's in either direction
    b.fill.gradient_stops[0].position, b.fill.gradient_stops[1].position = 0.3, 0.7
    c = sh.add_shape(MSO_SHAPE.OVAL, Inches(8), Inches(4), Inches(1), Inches(1))                    # [11] pattern fill
    c.fill.patterned()


def _drop_layouts(prs, keep):
    """Unused layouts only make open/save slower (thousands of scenarios re-open the deck)."""
    lays = list(prs.slide_layouts)
    for i, lay in enumerate(lays):
        if i not in keep and not lay.used_by_slides:
            prs.slide_layouts.remove(lay)


def _chart_deck(kind):
    import pptx
    from pptx.chart.data import BubbleChartData, CategoryChartData
    from pptx.enum.chart import XL_CHART_TYPE
    from pptx.util import Inches
    prs = pptx.Presentation()
    for _twin in (0, 1):            # slides[1] is an identical copy (twin objects)
        _fill_chart_slide(prs, kind, BubbleChartData, CategoryChartData, XL_CHART_TYPE, Inches)
    _drop_layouts(prs, keep=())
    return prs


def _fill_chart_slide(prs, kind, BubbleChartData, CategoryChartData, XL_CHART_TYPE, Inches):
    s = prs.slides.add_slide(prs.slide_layouts[6])
    if kind == "xy":
        from pptx.chart.data import XyChartData
        cd = XyChartData()
        se = cd.add_series("S1")
        se.add_data_point(1, 2)
        se.add_data_point(2, 1.5)
        s.shapes.add_chart(XL_CHART_TYPE.XY_SCATTER, Inches(1), Inches(1), Inches(6), Inches(4), cd)
        return
    if kind == "bubble":
        cd = BubbleChartData()
        se = cd.add_series("S1")
        se.add_data_point(1, 2, 3)
        se.add_data_point(2, 1, 5)
        s.shapes.add_chart(XL_CHART_TYPE.BUBBLE, Inches(1), Inches(1), Inches(6), Inches(4), cd)
        return
    cd = CategoryChartData()
    cd.categories = ["a", "b", "c"]
    cd.add_series("S1", (1.5, -2, 3))
    cd.add_series("S2", (2, 4.25, -1))
    ct = XL_CHART_TYPE.COLUMN_CLUSTERED if kind == "bar" else XL_CHART_TYPE.LINE_MARKERS
    gf = s.shapes.add_chart(ct, Inches(1), Inches(1), Inches(6), Inches(4), cd)
    ch = gf.chart
    if kind == "line":
        # the LAST point of the first series is formatted already (its c:dPt comes first in the document): formatting an earlier point
        # later leaves the c:dPt elements out of index order, as any script that colours points from the last to the first does
        ch.plots[0].series[0].points[2].marker.size = 11
    if kind == "bar":
        ch.has_legend = True
        ch.plots[0].has_data_labels = True
        gf2 = s.shapes.add_chart(ct, Inches(1), Inches(5), Inches(6), Inches(2), cd)      # [1]: a chart with titles present
        gf2.chart.has_title = True
        gf2.chart.value_axis.has_title = True
        # [2]: a STACKED column chart (another grouping of the same plot class: the writer gives it an explicit overlap of 100)
        from pptx.enum.chart import XL_CHART_TYPE as _X
        s.shapes.add_chart(_X.COLUMN_STACKED, Inches(7), Inches(5), Inches(2), Inches(2), cd)


def deck_bytes(name: str) -> bytes:
    if name not in _DECKS:
        prs = _deck_shapes() if name == "shapes" else _chart_deck(name)
        b = io.BytesIO()
        prs.save(b)
        _DECKS[name] = b.getvalue()
    return _DECKS[name]


def open_deck(name: str):
    import pptx
    if name.startswith("/"):
        return pptx.Presentation(name)
    return pptx.Presentation(io.BytesIO(deck_bytes(name)))


# ------------------------------------------------------------------------------------------------ paths
_TOK = re.compile(r"([A-Za-z_][A-Za-z_0-9]*)(?:\[(-?\d+)\]|\((\d+),(\d+)\))?$")


def resolve(root, path: str):
    """attr, attr[i], attr(i,j) separated by dots, through the public API only."""
    o = root
    if not path:
        return o
    for t in path.split("."):
        m = _TOK.match(t)
        if not m:
            raise ValueError("bad path token %r" % t)
        o = getattr(o, m.group(1))
        if m.group(2) is not None:
            o = o[int(m.group(2))]
        elif m.group(3) is not None:
            o = o(int(m.group(3)), int(m.group(4)))
    return o


def _split(p: str):
    head, _, leaf = p.rpartition(".")
    return head, leaf


def get_prop(obj, p: str):
    head, leaf = _split(p)
    o = resolve(obj, head)
    m = _TOK.match(leaf)
    if m.group(2) is not None:
        return getattr(o, m.group(1))[int(m.group(2))]
    return getattr(o, leaf)


def set_prop(obj, p: str, v):
    head, leaf = _split(p)
    o = resolve(obj, head)
    m = _TOK.match(leaf)
    if m.group(2) is not None:
        getattr(o, m.group(1))[int(m.group(2))] = v
    else:
        setattr(o, leaf, v)


def elem_of(obj):
    for n in ("_element", "element", "_tc", "_tr", "_gridCol", "_tbl", "_xPr", "_xFill", "_rPr"):
        e = getattr(obj, n, None)
        if e is not None and hasattr(e, "xpath"):
            return e
    par = getattr(obj, "_parent", None)          # LineFormat: the shape
    if par is not None:
        return elem_of(par)
    return None


# ------------------------------------------------------------------------------------------------ readings
def canon(v) -> str:
    """Canonical string of a public reading (TLC compares readings by equality only)."""
    import enum as _enum
    from pptx.dml.color import RGBColor
    from pptx.util import Length
    if v is None:
        return "None"
    if isinstance(v, bool):
        return "True" if v else "False"
    if isinstance(v, _enum.Enum):
        return "%s.%s" % (type(v).__name__, v.name)
    if isinstance(v, RGBColor):
        return "rgb:%s" % str(v)
    if isinstance(v, Length):
        return "L:%d" % int(v)
    if isinstance(v, int):
        return "i:%d" % v
    if isinstance(v, float):
        return "f:%r" % v
    if isinstance(v, str):
        return "s:" + v
    return "o:" + type(v).__name__


def read(obj, p: str):
    try:
        return get_prop(obj, p), None
    except Exception as e:      # noqa: BLE001  (a reader that raises is a reading: "!AttributeError")
        return None, type(e).__name__


def reading(obj, p: str) -> str:
    v, e = read(obj, p)
    return ("!" + e) if e else canon(v)


def explicit(obj, pr: dict) -> str:
    if not pr.get("xp"):
        return "na"
    head, _ = _split(pr["p"])
    try:
        el = elem_of(resolve(obj, head))
        if el is None:
            return "na"
        return "yes" if len(_etree._Element.xpath(el, pr["xp"], namespaces=NS)) else "no"
    except Exception:           # noqa: BLE001
        return "na"


def snapshot(obj, kind: dict, active=frozenset()) -> dict:
    """Readings of every catalogued property; `lazy` groups (readers with a documented side effect) are read only once activated."""
    live = [not pr.get("lazy") or pr["lazy"] in active for pr in kind["props"]]
    return {"r": [reading(obj, pr["p"]) if ok else "lazy" for pr, ok in zip(kind["props"], live)],
            "x": [explicit(obj, pr) if ok else "na" for pr, ok in zip(kind["props"], live)]}


# ------------------------------------------------------------------------------------------------ runtime catalogue
RT: dict = {}          # filled by prepare(); inherited by forked workers
FLOAT_DOMS = ("angle", "frac", "double", "linespacing")
NUM_DOMS = ("emu", "cpt", "angle", "frac", "int", "double", "linespacing")


def _enum_cls(dotted: str):
    mod, _, name = dotted.rpartition(".")
    return getattr(importlib.import_module(mod), name)


def _members(e):
    """(assignable members, return-only members).  BaseXmlEnum: assignable iff it has an XML value."""
    ms = list(e)
    if hasattr(ms[0], "xml_value"):
        return [m for m in ms if m.xml_value], [m for m in ms if not m.xml_value]
    return [m for m in ms if m.name != "MIXED"], [m for m in ms if m.name == "MIXED"]


def _draws(strategy, n: int, sd: int) -> list:
    """n seeded draws from a hypothesis strategy (deterministic for a given seed); random fallback."""
    if n <= 0:
        return []
    out: list = []
    try:
        from hypothesis import HealthCheck, Phase, given, seed, settings

        @seed(sd)
        @settings(max_examples=max(4 * n, 20), database=None, phases=[Phase.generate], deadline=None,
                  suppress_health_check=list(HealthCheck), derandomize=False)
        @given(strategy)
        def f(x):
            if x not in out:
                out.append(x)
        f()
    except Exception:           # noqa: BLE001
        out = []
    return out[:n]


def _seed_of(*parts) -> int:
    import hashlib
    return int(hashlib.sha1("|".join(str(p) for p in parts).encode()).hexdigest()[:8], 16)


def _num_draws(kind: str, pr: dict, nmid: int, nthr: int, seed: int) -> tuple[list, list]:
    """Interior values and rounding-threshold bases (python numbers in user units)."""
    import random
    from hypothesis import strategies as st
    dom, q = pr["dom"], pr["q"]
    lo, hi = pr["lo"], pr["hi"]
    sd = _seed_of(seed, kind, pr["p"])
    rnd = random.Random(sd)
    dlo, dhi = pr.get("draw") or (lo, hi)
    if dom in ("emu", "int", "cpt"):
        a, b = (dlo if dlo is not None else -10**9), (dhi if dhi is not None else 10**9)
        if dom != "int" and b - a > 10**9:
            a, b = max(a, -20000000), min(b, 40000000)           # around slide-sized lengths; the far bounds are their own classes
        # the first interior value is a plain uniform draw (used by the pair / triple classes); hypothesis adds its boundary-seeking ones
        mids = ([rnd.randint(a + 1, b - 1)] + [x for x in _draws(st.integers(a + 1, b - 1), nmid, sd)])[:nmid]
        while len(mids) < nmid:
            mids.append(rnd.randint(a + 1, b - 1))
        thrs = []
        if dom == "cpt":
            ks = _draws(st.integers(a // 127 + 1, b // 127 - 1), nthr, sd + 1) or [rnd.randint(a // 127 + 1, b // 127 - 1) for _ in range(nthr)]
            thrs = [k * 127 for k in ks]
        return mids, thrs
    a = float(dlo) if dlo is not None else -1e9
    b = float(dhi) if dhi is not None else 1e9
    if b - a > 1e4 and dom != "double":
        a, b = max(a, -2.0), min(b, 3.0)
    if dom == "double" and lo == 0.0:
        a = 1e-6
    mids = [rnd.uniform(a, b)] + _draws(st.floats(a, b, allow_nan=False, allow_infinity=False, exclude_min=True, exclude_max=True), nmid, sd)
    mids = [m for m in mids if m != 0.0 or lo != 0.0][:nmid]
    while len(mids) < nmid:
        mids.append(rnd.uniform(a, b))
    thrs = []
    if q:
        n = int(1 / q)
        ka, kb = int(math.ceil(a * n)) + 1, int(math.floor(b * n)) - 2
        ks = _draws(st.integers(ka, kb), nthr, sd + 1) or [rnd.randint(ka, kb) for _ in range(nthr)]
        thrs = [(2 * k + 1) / (2.0 * n) for k in ks]            # k + 1/2 quanta
    return mids, thrs


def prepare(tier: str, seed: int, kinds: list | None = None) -> list:
    """Measure the fixtures and build (a) RT, the python-side runtime catalogue with concrete draws, (b) the JSON catalogue
    for TLC (returned).  Deterministic for (tier, seed)."""
    thorough = tier == "thorough"
    nmid, nthr, cap = (4, 4, 40) if thorough else (2, 2, 10)
    RT.clear()
    RT.update({"tier": tier, "seed": seed, "kinds": {}, "order": []})
    cat = []
    for k in CAT.KINDS:
        if (kinds and k["kind"] not in kinds) or (k.get("tier") == "thorough" and not thorough):
            continue
        prs = open_deck(k["deck"])
        obj = resolve(prs, k["path"])
        init = snapshot(obj, k)
        names = [pr["p"] for pr in k["props"]]
        ix = {n: i + 1 for i, n in enumerate(names)}
        rprops, tprops = [], []
        for i, pr in enumerate(k["props"]):
            r = dict(pr)
            dom = pr["dom"]
            if pr["none"] and (not pr["xp"] or init["x"][i] == "na"):
                raise RuntimeError("catalogue: %s.%s documents None but the explicit setting cannot be observed (xp)" % (k["kind"], pr["p"]))
            mem, ret = [], []
            if pr["enum"]:
                import random
                am, rm = _members(_enum_cls(pr["enum"]))
                if dom == "enum" and pr["p"].endswith("language_id"):
                    am = [m for m in am if m.name != "NONE"]          # NONE is the documented spelling of None
                if len(am) > cap:
                    # a big enumeration is represented by its first and last member, every member that shares its XML token with
                    # another one (their own value class: "alias"), and a seeded sample of the rest
                    byx = {}
                    for m in am:
                        byx.setdefault(getattr(m, "xml_value", m.name), []).append(m)
                    alias = [m for ms in byx.values() if len(ms) > 1 for m in ms]
                    rnd = random.Random(_seed_of(seed, k["kind"], pr["p"], "mem"))
                    rest = [m for m in am[1:-1] if m not in alias]
                    am = [am[0], am[-1]] + alias + rnd.sample(rest, max(0, cap - 2 - len(alias)))
                while len(am) > 1 and canon(am[0]) == init["r"][i]:
                    am = am[1:] + am[:1]
                mem, ret = am, rm[:2]
            mids, thrs = ([], [])
            if dom in NUM_DOMS:
                n_mid = nmid if dom != "int" else 1
                n_thr = nthr if dom in ("cpt", "angle", "frac", "linespacing") else 0
                mids, thrs = _num_draws(k["kind"], pr, n_mid, n_thr, seed)
            elif dom == "rgb":
                import random
                rnd = random.Random(_seed_of(seed, k["kind"], pr["p"]))
                mids = [tuple(rnd.randrange(256) for _ in range(3)) for _ in range(nmid)]
            r.update(mem=mem, ret=ret, mids=mids, thrs=thrs)
            rprops.append(r)
            obs = [ix[n] for n in pr["needs"]]
            absneeds = [j + 1 for j, o in enumerate(k["props"]) if not o["ro"] and any(n in o["coupled"] for n in pr["needs"]) and j != i]
            tprops.append({
                "p": pr["p"], "dom": dom, "hasLo": pr["lo"] is not None, "hasHi": pr["hi"] is not None, "edgeDoc": bool(pr["edgeDoc"]),
                "isFloat": dom in FLOAT_DOMS, "ntyp": len(pr["typ"]), "nmid": len(mids), "nthr": len(thrs), "nmem": len(mem), "nret": len(ret),
                "none": bool(pr["none"]), "noneReads": pr["noneReads"], "coupled": [ix[n] for n in pr["coupled"]],
                "weak": [ix[n] for n in pr["weak"]], "needs": absneeds, "needsObs": obs[0] if obs else 0, "ro": bool(pr["ro"]),
                "nonEmpty": bool(pr.get("nonempty")), "truthy": dom == "bool" and not pr["strict"], "initSet": bool(obs) and init["r"][obs[0] - 1] != "None"})
        RT["kinds"][k["kind"]] = {"kind": k["kind"], "deck": k["deck"], "path": k["path"], "props": rprops, "init": init}
        RT["order"].append(k["kind"])
        cat.append({"kind": k["kind"], "props": tprops})
    return cat


# ------------------------------------------------------------------------------------------------ concretisation
STRINGS = {"ascii": "Name 1", "unicode": "Ünï ✓ 名前 \U0001F600", "empty": "", "long": "x" * 300, "spaces": "  a  b "}


class Unjudgeable(Exception):
    pass


def concretise(pr: dict, tok: dict):
    """Token -> the python value assigned.  Raises Unjudgeable when the token has no value for this property."""
    from pptx.dml.color import RGBColor
    from pptx.util import Emu, Length
    cls, anc, d = tok["cls"], tok["anchor"], tok["delta"]
    dom = pr["dom"]
    isfloat = dom in FLOAT_DOMS
    step = pr["step"]

    def num(x):
        if isfloat:
            return float(x)
        return Emu(int(x)) if dom in ("emu", "cpt") else int(x)
    if cls == "bad":
        import enum as _enum
        if anc == "ret":
            return pr["ret"][d - 1]
        return {"str": "abc" if dom != "rgb" else "FF0000", "int": 9999 if dom in ("enum", "underline") else 42, "float": 1.5, "nan": float("nan"),
                "inf": float("inf"), "ninf": float("-inf"), "none": None, "bytes": b"abc", "tuple": (1, 2, 3), "int2": 2}[anc]
    if cls == "out":
        base = pr["lo"] if anc == "lo" else pr["hi"]
        if isfloat:
            v = float(F(base) + d * step)
            # one quantum outside in exact arithmetic; make sure the float itself is outside
            return v if (v < base if anc == "lo" else v > base) else math.nextafter(base, -math.inf if anc == "lo" else math.inf)
        return num(base + d * int(step))
    # in-domain
    if dom in NUM_DOMS:
        if anc in ("lo", "hi"):
            base = pr["lo"] if anc == "lo" else pr["hi"]
            if isfloat:
                v = float(F(base) + d * step)
                return min(max(v, pr["lo"]), pr["hi"]) if pr["lo"] is not None and pr["hi"] is not None else v
            return num(base + d * int(step))
        if anc == "typ":
            v = pr["typ"][d - 1]
            if dom == "linespacing":
                return Length(v) if isinstance(v, int) and v > 1000 else v
            return num(v) if not isinstance(v, str) else v
        if anc == "mid":
            return num(pr["mids"][d - 1])
        if anc == "thr":
            base = pr["thrs"][abs(d) - 1]
            if dom == "cpt":
                off = (64 if d > 0 else 63) if abs(d) % 2 else (1 if d > 0 else -1)
                return Emu(int(base) + off)
            return math.nextafter(base, math.inf if d > 0 else -math.inf)
        if anc == "pts":
            return Length([152400, 0, 20116800, 12700 * 14 + 64][d - 1])
    if dom in ("enum", "underline") and anc == "member":
        return pr["mem"][d - 1]
    if anc == "true":
        return True
    if anc == "false":
        return False
    if dom == "str":
        return pr["typ"][d - 1] if anc == "typ" else STRINGS[anc]
    if dom == "rgb":
        return RGBColor(*{"black": (0, 0, 0), "white": (255, 255, 255)}.get(anc, pr["mids"][d - 1] if anc == "mid" else (1, 2, 3)))
    raise Unjudgeable("%s %s" % (pr["p"], tok))


def within(pr: dict, assigned, got) -> bool:
    """|read - assigned| <= quantum, exact arithmetic; discrete domains: the same value."""
    import enum as _enum
    from pptx.util import Length
    dom = pr["dom"]
    if got is None:
        return assigned is None
    if dom in NUM_DOMS and (isinstance(assigned, (bool, str, bytes)) or not isinstance(assigned, (int, float))):
        return canon(assigned) == canon(got)          # an accepted wrong-type value (report-only): same value back?
    if dom in NUM_DOMS:
        if isinstance(got, (bool, str)) or not isinstance(got, (int, float)):
            return False
        if isinstance(assigned, float) and not math.isfinite(assigned):
            return isinstance(got, float) and (math.isnan(got) if math.isnan(assigned) else got == assigned)
        if isinstance(got, float) and not math.isfinite(got):
            return False
        if dom == "linespacing" and isinstance(assigned, Length) != isinstance(got, Length):
            return False
        if dom == "int":                 # counts, percentages, style indices: no storage quantum, the same integer
            return isinstance(got, int) and got == assigned
        q = F(127) if (dom == "linespacing" and isinstance(assigned, Length)) else pr["q"]
        diff = abs(F(got) - F(assigned))
        if pr["mod"]:
            diff = diff % pr["mod"]
            diff = min(diff, pr["mod"] - diff)
        slack = q / 10**6 if dom in FLOAT_DOMS else 0
        return diff <= q + slack
    if dom == "underline":
        from pptx.enum.text import MSO_UNDERLINE
        norm = lambda v: True if v is MSO_UNDERLINE.SINGLE_LINE else False if v is MSO_UNDERLINE.NONE else v   # noqa: E731
        return canon(norm(assigned)) == canon(norm(got))
    return canon(assigned) == canon(got)


# ------------------------------------------------------------------------------------------------ replay of one scenario
def _outcome(e: Exception) -> str:
    return "TypeError" if isinstance(e, TypeError) else "ValueError" if isinstance(e, ValueError) else type(e).__name__


def _delta(a: list, b: list) -> list:
    return [[i + 1, v] for i, (u, v) in enumerate(zip(a, b)) if u != v]


def respell(raw: bytes) -> tuple[bytes, int]:
    """The saved package with attribute values re-spelled as another producer may spell them, value for value the same by the schema:
    hexBinary colours in lower case (a:srgbClr/@val, a:sysClr/@lastClr), xsd:boolean "1"/"0" as "true"/"false" for the attributes that
    are boolean wherever they occur in DrawingML / PresentationML / charts."""
    import re
    import zipfile
    from lxml import etree
    # xsd:boolean attributes BY ELEMENT (an attribute name means something else elsewhere: a:srcRect/@b is a percentage)
    RPR = {"b", "i", "kumimoji", "normalizeH", "noProof", "dirty", "err", "smtClean"}
    LOCKS = {"noGrp", "noRot", "noChangeAspect", "noMove", "noResize", "noSelect", "noEditPoints", "noAdjustHandles", "noChangeArrowheads",
             "noChangeShapeType", "noTextEdit", "noCrop", "noDrilldown", "noUngrp"}
    BOOL_AT = {"rPr": RPR, "defRPr": RPR, "endParaRPr": RPR, "xfrm": {"flipH", "flipV"}, "spLocks": LOCKS, "picLocks": LOCKS, "grpSpLocks": LOCKS,
               "graphicFrameLocks": LOCKS, "cxnSpLocks": LOCKS, "cNvSpPr": {"txBox"}, "nvPr": {"userDrawn"}, "ph": {"hasCustomPrompt"},
               "sld": {"showMasterSp", "showMasterPhAnim"}, "gradFill": {"rotWithShape"}, "blipFill": {"rotWithShape"},
               "tblPr": {"firstRow", "firstCol", "lastRow", "lastCol", "bandRow", "bandCol", "rtl"}, "tc": {"hMerge", "vMerge"},
               "bodyPr": {"rtlCol", "anchorCtr", "upright", "compatLnSpc", "fromWordArt", "forceAA", "spcFirstLastPara"},
               "pPr": {"eaLnBrk", "latinLnBrk", "hangingPunct", "rtl"}}
    CVAL = {"autoTitleDeleted", "varyColors", "delete", "invertIfNegative", "smooth", "marker", "showLegendKey", "showVal", "showCatName",
            "showSerName", "showPercent", "showBubbleSize", "showLeaderLines", "overlay", "plotVisOnly", "date1904", "roundedCorners", "auto",
            "noMultiLvlLbl", "bubble3D", "showNegBubbles", "rAngAx", "showDLblsOverMax"}
    C = "http://schemas.openxmlformats.org/drawingml/2006/chart"
    n = 0
    zin = zipfile.ZipFile(io.BytesIO(raw))
    out = io.BytesIO()
    with zipfile.ZipFile(out, "w", zipfile.ZIP_DEFLATED) as zout:
        for item in zin.infolist():
            data = zin.read(item.filename)
            if item.filename.endswith(".xml") and (item.filename.startswith("ppt/slides/") or item.filename.startswith("ppt/charts/")):
                root = etree.fromstring(data)
                for el in root.iter():
                    if not isinstance(el.tag, str):
                        continue
                    ln = etree.QName(el).localname
                    if ln in ("srgbClr", "sysClr"):
                        for a in ("val", "lastClr"):
                            v = el.get(a)
                            if v and re.fullmatch(r"[0-9A-F]{6}", v) and v != v.lower():
                                el.set(a, v.lower())
                                n += 1
                    for a, v in list(el.attrib.items()):
                        if a in BOOL_AT.get(ln, ()) and v in ("0", "1"):
                            el.set(a, "true" if v == "1" else "false")
                            n += 1
                    if etree.QName(el).namespace == C and ln in CVAL and el.get("val") in ("0", "1"):
                        el.set("val", "true" if el.get("val") == "1" else "false")
                        n += 1
                data = etree.tostring(root, xml_declaration=True, encoding="UTF-8", standalone=True)
            zout.writestr(item, data)
    return out.getvalue(), n


def run_respelled(job):
    """C11 reader stage: job as for run_trace with ONE accepted assignment.  The deck is saved once and opened twice - as written, and
    respelled; returns {"id", "out": "respelled", "lost": [property names whose readings differ], "n": respelled attributes}, or None when
    the assignment was refused / nothing in the file could be respelled."""
    import pptx
    tid, kname, deck, path, acts = job
    K = RT["kinds"][kname]
    props = K["props"]
    prs = open_deck(deck)
    obj = resolve(prs, path)
    a = [x for x in acts if x["op"] != "SaveReopen"][0]
    pr = props[a["p"] - 1]
    try:
        set_prop(obj, pr["p"], None if a["op"] == "SetNone" else concretise(pr, a["v"]))
    except Exception:           # noqa: BLE001
        return None
    b = io.BytesIO()
    prs.save(b)
    raw = b.getvalue()
    other, n = respell(raw)
    if n == 0:
        return None
    kd = {"props": props}
    active = {p_["lazy"] for p_ in props if p_.get("lazy")}
    ra = snapshot(resolve(pptx.Presentation(io.BytesIO(raw)), path), kd, active)["r"]
    try:
        rb = snapshot(resolve(pptx.Presentation(io.BytesIO(other)), path), kd, active)["r"]
    except Exception:           # noqa: BLE001
        return {"id": tid, "out": "respelled", "lost": ["open"], "n": n}
    return {"id": tid, "out": "respelled", "lost": [props[i]["p"] for i, (u, v) in enumerate(zip(ra, rb)) if u != v], "n": n}


def run_trace(job) -> dict:
    """job = (id, kind name, deck (fixture name or corpus file), object path, actions [{op,p,v,exp}]) -> observed trace."""
    tid, kname, deck, path, acts = job
    K = RT["kinds"][kname]
    props = K["props"]
    prs = open_deck(deck)
    obj = resolve(prs, path)
    kd = {"props": props}
    active: set = set()
    s = snapshot(obj, kd, active)
    tr = {"id": tid, "k": RT["order"].index(kname) + 1, "init": s, "steps": []}
    # the TWIN: the object at the same path on the identical second slide of a fixture deck.  After the first accepted assignment the
    # twin is given the same value (two objects that share a relationship or a cached sub-object then really share it); from then on
    # m.tw says whether any reading of the twin changed in the step ("changed") - or, at the mirror step, any reading of the object
    # (observed in the sweep and the pair scenarios; the triple scenarios differ from the pairs in the primary object's history only)
    tpath = ("slides[1]" + path[len("slides[0]"):]) if (path.startswith("slides[0]") and not str(deck).startswith("/")
                                                        and len([x for x in acts if x["op"] != "SaveReopen"]) <= 2) else None

    def twin_of(prs_):
        if tpath is None:
            return None
        try:
            return resolve(prs_, tpath)
        except Exception:       # noqa: BLE001
            return None
    twin = twin_of(prs)
    tw_prev = snapshot(twin, kd, active)["r"] if twin is not None else None
    mirrored = False
    for a in acts:
        m = {"within": True, "av": "", "rv": "", "exc": "", "tw": "na"}
        out = "ok"
        if a["op"] == "SaveReopen":
            try:
                b = io.BytesIO()
                prs.save(b)
                import pptx
                saved = b.getvalue()
                if zlib.crc32(str(tid).encode()) % 2 == 0:      # every other history: the file is read as another producer spells it
                    saved, m["respelled"] = respell(saved)
                prs2 = pptx.Presentation(io.BytesIO(saved))
                obj2 = resolve(prs2, path)
                prs, obj = prs2, obj2
                twin = twin_of(prs)
            except Exception as e:      # noqa: BLE001
                out, m["exc"] = _outcome(e), "%s: %s" % (type(e).__name__, str(e)[:120])
        else:
            pr = props[a["p"] - 1]
            if pr.get("lazy") and pr["lazy"] not in active:
                active.add(pr["lazy"])
                if twin is not None:            # a group of readers becomes observed from now on: the twin's baseline is re-read with it
                    try:
                        tw_prev = snapshot(twin, kd, active)["r"]
                    except Exception:       # noqa: BLE001
                        tw_prev = None
            try:
                val = None if a["op"] == "SetNone" else concretise(pr, a["v"])
            except Unjudgeable as e:
                raise RuntimeError("token without value: %s" % e)
            m["av"] = canon(val) if not isinstance(val, float) else "f:%r" % val
            try:
                set_prop(obj, pr["p"], val)
            except Exception as e:      # noqa: BLE001
                out, m["exc"] = _outcome(e), "%s: %s" % (type(e).__name__, str(e)[:120])
            if out == "ok" and a["op"] != "SetNone":
                got, err = read(obj, pr["p"])
                m["rv"] = ("!" + err) if err else canon(got)
                m["within"] = (not err) and within(pr, val, got)
        t = snapshot(obj, kd, active)
        if twin is not None and tw_prev is not None:
            try:
                tw_now = snapshot(twin, kd, active)["r"]
                m["tw"] = "same" if tw_now == tw_prev else "changed"
                if a["op"] == "Set" and out == "ok" and not mirrored:
                    mirrored = True
                    try:
                        set_prop(twin, props[a["p"] - 1]["p"], val)
                    except Exception:       # noqa: BLE001
                        pass
                    if snapshot(obj, kd, active)["r"] != t["r"]:
                        m["tw"] = "changed"          # assigning to the twin changed a reading of the object
                    tw_now = snapshot(twin, kd, active)["r"]
                tw_prev = tw_now
            except Exception:       # noqa: BLE001
                m["tw"] = "na"
        tr["steps"].append({"a": {"op": a["op"], "p": a["p"], "v": a["v"]}, "exp": a.get("exp", "free"), "out": out, "m": m,
                            "dr": _delta(s["r"], t["r"]), "dx": _delta(s["x"], t["x"])})
        s = t
    return tr


def run_monitored(job):
    """C03 host: job as for run_trace.  The XSD monitor judges the object's part before the LAST action (base) and after it.
    Returns a SlideOps-format trace: op "prop.set" when the assignment was accepted, "reject.attr" when it was refused with
    TypeError / ValueError; None when an earlier action failed, the object has no element, or another exception class was raised
    (C09's RefusalClass judges that)."""
    from lxml import etree
    from mbt.monitor import xsd
    tid, kname, deck, path, acts = job
    K = RT["kinds"][kname]
    props = K["props"]
    prs = open_deck(deck)
    obj = resolve(prs, path)
    acts = [a for a in acts if a["op"] != "SaveReopen"]

    def verdict():
        el = elem_of(obj)
        if el is None:
            return None
        root = el.getroottree().getroot()
        return [{"role": "/part", "err": xsd.errors(etree.fromstring(etree.tostring(root)))}]

    def c14n():
        # the part's XML up to empty, attribute-less elements (the same equivalence C12 states): a setter may leave an empty
        # formatting container behind when the value is refused; an attribute, text or a non-empty element is "something written"
        from mbt.drive import readonly as RO
        el = elem_of(obj)
        if el is None:
            return None
        root = etree.fromstring(etree.tostring(el.getroottree().getroot()))
        RO._strip_empty(root)
        return etree.tostring(root, method="c14n")
    def attrs():
        # every attribute of the part as (element tag, attribute, value), with multiplicity; text nodes as (tag, "#text", text)
        import collections
        el = elem_of(obj)
        c = collections.Counter()
        if el is None:
            return c
        for e in el.getroottree().getroot().iter():
            if isinstance(e.tag, str):
                for k, v in e.attrib.items():
                    c[(e.tag, k, v)] += 1
                if (e.text or "").strip():
                    c[(e.tag, "#text", e.text)] += 1
        return c
    out = "ok"
    base = None
    xml_before = None
    attrs_before = None
    for i, a in enumerate(acts):
        pr = props[a["p"] - 1]
        try:
            val = None if a["op"] == "SetNone" else concretise(pr, a["v"])
        except Unjudgeable:
            return None
        last = i == len(acts) - 1
        if last:
            base = verdict()
            if base is None:
                return None
            xml_before = c14n()
            attrs_before = attrs()
        try:
            set_prop(obj, pr["p"], val)
        except Exception as e:      # noqa: BLE001
            if not last:
                return None
            out = _outcome(e)
    if out not in ("ok", "ValueError", "TypeError"):
        return None
    if out == "ok" and acts[-1]["op"] == "SetOut":
        return None          # an ACCEPTED value from outside the documented domain (NaN, inf, ...): C09 / C11 report it; C03 speaks of documented domains
    after = verdict()
    if after is None:
        return None
    return {"id": tid, "base": base, "steps": [{"op": "prop.set" if out == "ok" else "reject.attr", "out": out, "parts": after}], "final": after,
            "unexpected": [], "xmlSame": xml_before == c14n(),
            "lost": sorted("%s@%s" % (t.split("}")[-1], a) for (t, a, v), n in (attrs_before - attrs()).items())}


# ------------------------------------------------------------------------------------------------ corpus objects
def _walk_text(sh, p, out):
    out.append(("TextFrame", p + ".text_frame"))
    tf = sh.text_frame
    if len(tf.paragraphs):
        pp = p + ".text_frame.paragraphs[0]"
        out.append(("Paragraph", pp))
        out.append(("ParagraphFont", pp + ".font"))
        if len(tf.paragraphs[0].runs):
            out.append(("RunFont", pp + ".runs[0].font"))
            out.append(("FontColor", pp + ".runs[0].font.color"))


def _walk_chart(gf, p, out):
    ch = gf.chart
    cp = p + ".chart"
    out.append(("Chart", cp))
    out.append(("ChartFont", cp + ".font"))
    if ch.has_title:
        out.append(("ChartTitle", cp + ".chart_title"))
    if ch.has_legend:
        out.append(("Legend", cp + ".legend"))
        out.append(("LegendFont", cp + ".legend.font"))
    for nm, kind in (("category_axis", "CategoryAxis"), ("value_axis", "ValueAxis")):
        try:
            ax = getattr(ch, nm)
        except Exception:       # noqa: BLE001  (pie charts have no axes)
            continue
        if type(ax).__name__ == kind:
            out.append((kind, cp + "." + nm))
            if kind == "CategoryAxis":
                out.append(("TickLabels", cp + "." + nm + ".tick_labels"))
            elif ax.has_title:
                out.append(("AxisTitle", cp + "." + nm + ".axis_title"))
    if len(ch.plots):
        pl = ch.plots[0]
        # (the catalogued class a proxy IS: a subclass the library gains for a further plot / series type is an object of its base's kind)
        isa = lambda o, names: next((n for n in names if any(c.__name__ == n for c in type(o).__mro__)), type(o).__name__)  # noqa: E731
        pk = isa(pl, ("BarPlot", "BubblePlot", "XyPlot", "LinePlot", "PiePlot"))
        if pk in ("BarPlot", "BubblePlot", "XyPlot"):
            out.append((pk, cp + ".plots[0]"))
        try:
            if pl.has_data_labels and pk in ("BarPlot", "LinePlot", "PiePlot"):
                out.append(("DataLabels", cp + ".plots[0].data_labels"))
        except Exception:       # noqa: BLE001
            pass
        if len(pl.series):
            sk = isa(pl.series[0], ("BarSeries", "LineSeries"))
            if sk in ("BarSeries", "LineSeries"):
                out.append((sk, cp + ".plots[0].series[0]"))
            if sk == "LineSeries":
                out.append(("Marker", cp + ".plots[0].series[0].marker"))
            if sk == "BarSeries":
                out.append(("DataLabel", cp + ".plots[0].series[0].points[0].data_label"))


def _walk_shapes(shapes, base, out, depth=0):
    from pptx.enum.dml import MSO_FILL
    from pptx.enum.shapes import MSO_SHAPE_TYPE
    for i, sh in enumerate(shapes):
        p = "%s[%d]" % (base, i)
        cls = type(sh).__name__
        try:
            if cls == "Shape":
                st = sh.shape_type
                out.append(("TextBox" if st == MSO_SHAPE_TYPE.TEXT_BOX else "AutoShape", p))
                if st == MSO_SHAPE_TYPE.AUTO_SHAPE and len(sh.adjustments) >= 2:
                    out.append(("Adjustments", p))
                ft = sh.fill.type
                if ft == MSO_FILL.SOLID:
                    out.append(("SolidFillColor", p + ".fill"))
                elif ft == MSO_FILL.GRADIENT:
                    out.append(("GradientFill", p + ".fill"))
                    out.append(("GradientStop", p + ".fill.gradient_stops[0]"))
                elif ft == MSO_FILL.PATTERNED:
                    out.append(("PatternFill", p + ".fill"))
                out += [("Line", p + ".line"), ("LineColor", p + ".line.color"), ("Shadow", p + ".shadow")]
                _walk_text(sh, p, out)
            elif cls == "SlidePlaceholder":
                out.append(("Placeholder", p))
                _walk_text(sh, p, out)
            elif cls == "LayoutPlaceholder":
                out.append(("LayoutPlaceholder", p))
            elif cls == "Picture":
                out += [("Picture", p), ("Line", p + ".line")]
            elif cls == "Connector":
                out += [("Connector", p), ("Line", p + ".line")]
            elif cls == "GroupShape":
                out.append(("GroupShape", p))
                if depth < 2:
                    _walk_shapes(sh.shapes, p + ".shapes", out, depth + 1)
            elif cls == "GraphicFrame":
                out.append(("GraphicFrame", p))
                if sh.has_table:
                    t = sh.table
                    out.append(("Table", p + ".table"))
                    if len(t.rows) and len(t.columns):
                        out += [("Cell", p + ".table.cell(0,0)"), ("Row", p + ".table.rows[0]"), ("Column", p + ".table.columns[0]")]
                elif sh.has_chart:
                    _walk_chart(sh, p, out)
        except Exception:       # noqa: BLE001  (an irregular corpus shape: not an object of a catalogued kind)
            continue


def corpus_objects(deck: str) -> list:
    """(kind, deck, path) of every object of a catalogued kind reachable on a corpus deck."""
    import pptx
    try:
        prs = pptx.Presentation(deck)
    except Exception:           # noqa: BLE001
        return []
    out = [("Presentation", "")]
    try:
        for si, slide in enumerate(prs.slides):
            sp = "slides[%d]" % si
            out.append(("Slide", sp))
            _walk_shapes(slide.shapes, sp + ".shapes", out)
            if si >= 7:
                break
        for li, lay in enumerate(prs.slide_layouts):
            out.append(("SlideLayout", "slide_layouts[%d]" % li))
            _walk_shapes(lay.placeholders, "slide_layouts[%d].placeholders" % li, out)
            if li >= 2:
                break
    except Exception:           # noqa: BLE001
        pass
    ok = []
    for kind, path in out:
        try:                    # the object must be reachable again on a fresh open (paths are what the replay uses)
            resolve(pptx.Presentation(deck) if False else prs, path)
            ok.append((kind, deck, path))
        except Exception:       # noqa: BLE001
            continue
    return ok


# ------------------------------------------------------------------------------------------------ completeness
def settable_sites() -> dict:
    """Every `property` with a setter on the classes of the public pptx modules: (defining class, name) -> classes having it."""
    import inspect
    import pkgutil
    import pptx
    seen: dict = {}
    for m in pkgutil.walk_packages(pptx.__path__, "pptx."):
        if ".oxml" in m.name or m.name.startswith("pptx.opc") or "compat" in m.name:
            continue
        try:
            mod = importlib.import_module(m.name)
        except Exception:       # noqa: BLE001
            continue
        for _, c in inspect.getmembers(mod, inspect.isclass):
            if c.__module__ != m.name:
                continue
            for pn, pv in inspect.getmembers(c, lambda x: isinstance(x, property)):
                if pv.fset is None:
                    continue
                for k in c.__mro__:
                    if pn in k.__dict__:
                        seen.setdefault((k.__name__, pn), set()).add(c.__name__)
                        break
    return {k: sorted(v) for k, v in seen.items()}


def completeness() -> dict:
    sites = settable_sites()
    cat = CAT.catalogued_names()
    # colour implementation classes sit behind ColorFormat (same three setters)
    via = {("_Color", "brightness"): "ColorFormat.brightness", ("_SRgbColor", "rgb"): "ColorFormat.rgb",
           ("_SchemeColor", "theme_color"): "ColorFormat.theme_color"}
    covered, outscope, missing = [], {}, []
    for (dc, pn), classes in sorted(sites.items()):
        name = "%s.%s" % (dc, pn)
        if any((c, pn) in cat for c in classes + [dc]) or (dc, pn) in via:
            covered.append(name)
        elif (dc, pn) in CAT.OUT_OF_SCOPE:
            outscope[name] = CAT.OUT_OF_SCOPE[(dc, pn)]
        else:
            missing.append(name)
    return {"settable_sites": len(sites), "catalogued": covered, "out_of_scope": outscope, "uncatalogued": missing}
