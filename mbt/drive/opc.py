"""Driver for OpcPackage.tla: materialise abstract physical packages, run the real open/save,
project zips and loaded packages back to the spec's records.  No python-pptx class is used to
*read* a saved package (zipfile + lxml only)."""
from __future__ import annotations

import hashlib
import io
import os
import re
import shutil
import zipfile

from lxml import etree

CT_NS = "http://schemas.openxmlformats.org/package/2006/content-types"
REL_NS = "http://schemas.openxmlformats.org/package/2006/relationships"
P_NS = "http://schemas.openxmlformats.org/presentationml/2006/main"
A_NS = "http://schemas.openxmlformats.org/drawingml/2006/main"


# ------------------------------------------------------------------ segment table (names <-> ids)
class SegTable:
    def __init__(self, segs: list[dict] | None = None):
        self.segs: list[dict] = []
        self.txt: list[str] = []
        self.ids: dict[str, int] = {}
        for s in segs or []:
            t = s["stem"] + ("" if s["num"] < 0 else "0" * s.get("pad", 0) + str(s["num"])) + "".join("." + e for e in s["exts"])
            self._add(t, s)

    def _add(self, t: str, rec: dict) -> int:
        self.segs.append(rec)
        self.txt.append(t)
        self.ids[t] = len(self.segs)
        return len(self.segs)

    def seg(self, t: str) -> int:
        if t == ".":
            return 0
        if t == "..":
            return -1
        if t in self.ids:
            return self.ids[t]
        pieces = t.split(".")
        m = re.match(r"^(.*?)(\d*)$", pieces[0], re.S)
        return self._add(t, {"stem": m.group(1), "num": int(m.group(2)) if m.group(2) else -1, "exts": pieces[1:]})

    def name(self, s: str) -> list[int]:
        assert s.startswith("/"), s
        return [] if s == "/" else [self.seg(x) for x in s[1:].split("/")]

    def ref(self, s: str) -> dict:
        ab = s.startswith("/")
        body = s[1:] if ab else s
        return {"abs": ab, "segs": [self.seg(x) for x in body.split("/")] if body else []}

    def render(self, ids: list[int]) -> str:
        return "/" + "/".join(self.txt[i - 1] for i in ids)

    def render_ref(self, ref: dict) -> str:
        parts = ["." if s == 0 else ".." if s == -1 else self.txt[s - 1] for s in ref["segs"]]
        return ("/" if ref["abs"] else "") + "/".join(parts)

    def table(self) -> list[dict]:
        return self.segs


class LazySegTable:
    """Same interface as SegTable but returns markers; `intern` resolves them against one shared table later
    (lets worker processes project packages independently and the parent build one table per TLC run)."""

    def name(self, s: str):
        return {"$n": s}

    def ref(self, s: str):
        return {"$r": s}

    def table(self):
        return []


def intern(obj, st: SegTable):
    if isinstance(obj, dict):
        if len(obj) == 1 and "$n" in obj:
            return st.name(obj["$n"])
        if len(obj) == 1 and "$r" in obj:
            return st.ref(obj["$r"])
        return {k: intern(v, st) for k, v in obj.items()}
    if isinstance(obj, list):
        return [intern(v, st) for v in obj]
    return obj


# ------------------------------------------------------------------ payload tokens
def _slide(text: str, variant: int) -> bytes:
    if variant == 0:
        return ('<?xml version="1.0" encoding="UTF-8" standalone="yes"?>\n<p:sld xmlns:a="%s" xmlns:p="%s"><p:cSld><p:spTree>'
                '<p:nvGrpSpPr><p:cNvPr id="1" name=""/><p:cNvGrpSpPr/><p:nvPr/></p:nvGrpSpPr><p:grpSpPr/></p:spTree></p:cSld>'
                '<p:clrMapOvr><a:masterClrMapping/></p:clrMapOvr><p:timing><p:tnLst><p:par><p:cTn id="1" dur="indefinite" nodeType="tmRoot"/></p:par></p:tnLst></p:timing><!--%s--></p:sld>'
                % (A_NS, P_NS, text)).encode()
    if variant == 1:  # pretty printed, other prefixes, single quotes, no declaration
        return ("<x:sld xmlns:x='%s' xmlns:y='%s'>\n  <x:cSld>\n    <x:spTree>\n      <x:nvGrpSpPr>\n        <x:cNvPr name='' id='1'/>\n"
                "        <x:cNvGrpSpPr/>\n        <x:nvPr/>\n      </x:nvGrpSpPr>\n      <x:grpSpPr/>\n    </x:spTree>\n  </x:cSld>\n"
                "  <x:clrMapOvr>\n    <y:masterClrMapping/>\n  </x:clrMapOvr>\n  <x:timing><x:tnLst><x:par><x:cTn id='1' dur='indefinite' nodeType='tmRoot'/></x:par></x:tnLst></x:timing><!--%s-->\n</x:sld>\n"
                % (P_NS, A_NS, text)).encode()
    return _slide(text, 0).decode().replace('encoding="UTF-8"', 'encoding="UTF-16"').encode("utf-16")


PAYLOAD_BYTES = {
    "B0": [b""],
    "B1": [b"\x00\x01\xff<?xml not really \r\n\x1a"],
    "B2": [bytes(range(256)) * 3],
    # an SVG picture as an editor exports it: a DOCTYPE with an internal entity, a generator comment (compared byte for byte)
    "BS": [b'<?xml version="1.0" encoding="UTF-8"?>\n<!-- Generator: some editor -->\n<!DOCTYPE svg [ <!ENTITY brand "ACME"> ]>\n'
           b'<svg xmlns="http://www.w3.org/2000/svg" width="10" height="10"><title>&brand; logo</title><rect width="10" height="10"/></svg>\n'],
    "G1": [b'<?xml version="1.0"?>\n<doc a = "1"   b=\'2\'>  <e/>\n text &amp; more <![CDATA[<raw>]]></doc>\n'],
    "G2": [b"<root xmlns='urn:x'><child>\xc3\xa9</child></root>"],
    "X": [_slide("first", 0), _slide("first", 1), _slide("first", 2)],
    "Y": [_slide("second", 0), _slide("second", 1)],
}


def canon(b: bytes) -> str | None:
    """Namespace-prefix-independent canonical form (Clark names, sorted attributes), up to
    whitespace-only text nodes that have element siblings."""
    try:
        root = etree.fromstring(b, etree.XMLParser(remove_blank_text=False, resolve_entities=False))
    except etree.XMLSyntaxError:
        return None
    h = hashlib.sha1()

    def ws(t, has_kids):
        if t is None:
            return ""
        return "" if (has_kids and not t.strip()) else t

    def walk(el, parent_has_kids):
        if not isinstance(el.tag, str):
            h.update(("<!%s|%s>" % (type(el).__name__, el.text)).encode())
        else:
            kids = len(el) > 0
            h.update(("<%s" % el.tag).encode())
            for k in sorted(el.attrib):
                h.update((" %s=%r" % (k, el.attrib[k])).encode())
            h.update((">%s" % ws(el.text, kids)).encode())
            for ch in el:
                walk(ch, True)
            h.update(b"</>")
        h.update(ws(el.tail, parent_has_kids).encode())

    walk(root, False)
    return h.hexdigest()


_EXACT = {v: k for k, vs in PAYLOAD_BYTES.items() if k[0] == "B" for v in vs}
_CANON = {canon(vs[0]): k for k, vs in PAYLOAD_BYTES.items() if k[0] != "B"}
for _k, _vs in PAYLOAD_BYTES.items():
    if _k[0] != "B":
        assert all(canon(v) == canon(_vs[0]) for v in _vs), _k


def token(b: bytes) -> str:
    if b in _EXACT:
        return _EXACT[b]
    c = canon(b)
    if c in _CANON:
        return _CANON[c]
    return "?" + hashlib.sha1(b).hexdigest()[:10]


def generic_token(b: bytes, xmlish: bool) -> str:
    """Token for arbitrary (corpus) payloads."""
    if xmlish:
        c = canon(b)
        if c is not None:
            return "c:" + c[:16]
    return "b:" + hashlib.sha1(b).hexdigest()[:16]


# ------------------------------------------------------------------ abstract phys -> files
def _flipcase(s: str) -> str:
    return s.swapcase()


def render_members(ph: dict, st: SegTable, salt: int = 0) -> dict[str, bytes]:
    """Member name -> bytes for abstract package `ph` (kind "pkg")."""
    out: dict[str, bytes] = {}
    if ph["ct"]["present"]:
        x = ['<?xml version="1.0" encoding="UTF-8" standalone="yes"?>\n<Types xmlns="%s">' % CT_NS]
        for d in ph["ct"]["defs"]:
            ext = _flipcase(d["ext"]) if d["flip"] else d["ext"]
            x.append('<Default Extension="%s" ContentType="%s"/>' % (ext, d["type"]))
        # the rels default is always needed for relationship items to be legal; readers ignore it
        x.append('<Default Extension="rels" ContentType="application/vnd.openxmlformats-package.relationships+xml"/>')
        for o in ph["ct"]["ovrs"]:
            nm = st.render(o["n"])
            if o["flip"]:
                head, _, last = nm.rpartition("/")
                nm = head + "/" + _flipcase(last)
            x.append('<Override PartName="%s" ContentType="%s"/>' % (nm, o["type"]))
        x.append("</Types>")
        out["[Content_Types].xml"] = "".join(x).encode()
    for r in ph["rels"]:
        src = st.render(r["src"]) if r["src"] else "/"
        head, _, last = src.rpartition("/")
        rn = (head + "/_rels/" + last + ".rels")[1:]
        x = ['<?xml version="1.0" encoding="UTF-8" standalone="yes"?>\n<Relationships xmlns="%s">' % REL_NS]
        for it in r["items"]:
            if it["ext"]:
                x.append('<Relationship Id="%s" Type="%s" Target="%s" TargetMode="External"/>'
                         % (it["id"], it["type"], it["url"].replace("&", "&amp;")))
            else:
                x.append('<Relationship Id="%s" Type="%s" Target="%s"/>' % (it["id"], it["type"], st.render_ref(it["ref"])))
        x.append("</Relationships>")
        out[rn] = "".join(x).encode()
    for k, m in enumerate(ph["mem"]):
        variants = PAYLOAD_BYTES[m["pl"]]
        out[st.render(m["n"])[1:]] = variants[(k + salt) % len(variants)]
    return out


def write_zip(members: dict[str, bytes], fileobj) -> None:
    with zipfile.ZipFile(fileobj, "w", compression=zipfile.ZIP_DEFLATED) as z:
        for n, b in members.items():
            z.writestr(n, b)


def write_dir(members: dict[str, bytes], path: str) -> None:
    shutil.rmtree(path, ignore_errors=True)
    os.makedirs(path, exist_ok=True)
    for n, b in members.items():
        p = os.path.join(path, n)
        os.makedirs(os.path.dirname(p), exist_ok=True)
        with open(p, "wb") as f:
            f.write(b)


# ------------------------------------------------------------------ files -> abstract phys
_RELS_RE = re.compile(r"^(?:(.*)/)?_rels/([^/]*)\.rels$")


def project_members(members: dict[str, bytes], st: SegTable, tok=token) -> dict:
    """zip members (name -> bytes) to the spec's phys record."""
    ph = {"kind": "pkg", "mem": [], "ct": {"present": False, "defs": [], "ovrs": []}, "rels": []}
    plain = {}
    for n, b in members.items():
        if n == "[Content_Types].xml":
            continue
        if _RELS_RE.match(n):
            continue
        if n.endswith("/"):
            continue
        plain["/" + n] = b
    lower = {k.lower(): k for k in plain}
    if "[Content_Types].xml" in members:
        ph["ct"]["present"] = True
        root = etree.fromstring(members["[Content_Types].xml"])
        for el in root:
            if not isinstance(el.tag, str):
                continue
            ln = etree.QName(el).localname
            if ln == "Default":
                ext = el.get("Extension")
                ph["ct"]["defs"].append({"ext": ext.lower(), "flip": ext != ext.lower(), "type": el.get("ContentType")})
            elif ln == "Override":
                pn = el.get("PartName")
                if pn in plain:
                    ph["ct"]["ovrs"].append({"n": st.name(pn), "flip": False, "type": el.get("ContentType")})
                elif pn.lower() in lower:
                    ph["ct"]["ovrs"].append({"n": st.name(lower[pn.lower()]), "flip": True, "type": el.get("ContentType")})
                else:
                    ph["ct"]["ovrs"].append({"n": st.name(pn), "flip": False, "type": el.get("ContentType")})
    ctmap_x = {}
    for n, b in plain.items():
        ph["mem"].append({"n": st.name(n), "pl": tok(b) if tok is token else tok(n, b)})
    for n, b in members.items():
        m = _RELS_RE.match(n)
        if not m:
            continue
        d, f = m.group(1), m.group(2)
        src = "/" + ((d + "/") if d else "") + f
        items = []
        root = etree.fromstring(b)
        for el in root:
            if not isinstance(el.tag, str):
                continue
            ext = el.get("TargetMode") == "External"
            tgt = el.get("Target")
            items.append({"id": el.get("Id"), "type": el.get("Type"), "ext": ext,
                          "ref": {"abs": False, "segs": []} if ext else st.ref(tgt), "url": tgt if ext else ""})
        ph["rels"].append({"src": st.name(src), "items": items})
    return ph


def read_zip(fileobj) -> dict[str, bytes]:
    with zipfile.ZipFile(fileobj) as z:
        names = z.namelist()
        if len(set(names)) != len(names):
            # duplicate member names: keep a marker so the projection differs from any model package
            return {**{n: z.read(n) for n in names}, "<<duplicate-member>>": b""}
        return {n: z.read(n) for n in names}


# ------------------------------------------------------------------ loaded package -> abstract pkg
def project_pkg(pkg, st: SegTable, tok=token) -> dict:
    parts = []
    rels = []

    def items_of(rels_obj):
        out = []
        for rel in rels_obj.values():
            ext = bool(rel.is_external)
            out.append({"id": str(rel.rId), "type": str(rel.reltype), "ext": ext,
                        "tgt": [] if ext else st.name(str(rel.target_part.partname)),
                        "url": str(rel._target) if ext else ""})
        return out

    rels.append({"src": [], "items": items_of(pkg._rels)})
    for part in pkg.iter_parts():
        pn = str(part.partname)
        parts.append({"n": st.name(pn), "type": str(part.content_type), "pl": tok(part.blob) if tok is token else tok(pn[1:], part.blob)})
        rels.append({"src": st.name(pn), "items": items_of(part.rels)})
    return {"ok": True, "err": "", "parts": parts, "rels": rels}


REFUSED = lambda e: {"ok": False, "err": e, "parts": [], "rels": []}  # noqa: E731
EMPTY_PH = {"kind": "pkg", "mem": [], "ct": {"present": False, "defs": [], "ovrs": []}, "rels": []}


def run_trace(opener, source_factory, st: SegTable, tok=token) -> dict:
    """open -> save -> open -> save with the real library; returns pk1, ph2, pk3, ph4, bytesSame."""
    try:
        pkg = opener(source_factory())
    except Exception as e:  # the class is what the property constrains
        return {"pk1": REFUSED(type(e).__name__), "ph2": EMPTY_PH, "pk3": REFUSED("none"), "ph4": EMPTY_PH,
                "bytesSame": True, "errmsg": repr(e)[:200]}
    pk1 = project_pkg(pkg, st, tok)
    b1 = io.BytesIO()
    pkg.save(b1)
    m2 = read_zip(io.BytesIO(b1.getvalue()))
    ph2 = project_members(m2, st, tok)
    try:
        pkg2 = opener(io.BytesIO(b1.getvalue()))
        pk3 = project_pkg(pkg2, st, tok)
        b2 = io.BytesIO()
        pkg2.save(b2)
        m4 = read_zip(io.BytesIO(b2.getvalue()))
        ph4 = project_members(m4, st, tok)
        same = m4 == m2  # same member set, identical bytes (member order is not part of the property)
    except Exception as e:
        pk3, ph4, same = REFUSED(type(e).__name__), EMPTY_PH, False
    return {"pk1": pk1, "ph2": ph2, "pk3": pk3, "ph4": ph4, "bytesSame": same}
