"""Driver for Geometry.tla: connectors, groups, freeforms through the public API; state read from the lxml tree + readers."""
from __future__ import annotations

import copy
import io

A = "http://schemas.openxmlformats.org/drawingml/2006/main"
P = "http://schemas.openxmlformats.org/presentationml/2006/main"
_PNG = None


def _png():
    global _PNG
    if _PNG is None:
        from PIL import Image
        b = io.BytesIO()
        Image.new("RGB", (3, 2), (10, 200, 30)).save(b, "PNG")
        _PNG = b.getvalue()
    return io.BytesIO(_PNG)


def _xfrm(el):
    for x in el.iter("{%s}xfrm" % A, "{%s}xfrm" % P):
        return x
    return None


def _box(el):
    x = _xfrm(el)
    off = x.find("{%s}off" % A)
    ext = x.find("{%s}ext" % A)
    return int(off.get("x")), int(off.get("y")), int(ext.get("cx")), int(ext.get("cy")), x


class Bench:
    def __init__(self):
        import pptx
        self.prs = pptx.Presentation()
        self.slide = self.prs.slides.add_slide(self.prs.slide_layouts[6])


_B = []


def bench() -> Bench:
    if not _B:
        _B.append(Bench())
    return _B[0]


# ---------------------------------------------------------------- connector
def cxn_state(c) -> dict:
    x, y, cx, cy, xf = _box(c._element)
    t = lambda v: v in ("1", "true")  # noqa: E731
    return {"x": x, "y": y, "cx": cx, "cy": cy, "fh": t(xf.get("flipH")), "fv": t(xf.get("flipV")),
            "bx": int(c.begin_x), "by": int(c.begin_y), "ex": int(c.end_x), "ey": int(c.end_y)}


def cxn_apply(c, a):
    setattr(c, {"bx": "begin_x", "by": "begin_y", "ex": "end_x", "ey": "end_y"}[a["op"]], a["v"])


def _mon(slide, on):
    if not on:
        return []
    from mbt.monitor import xsd as X
    return X.errors(slide._element)


def cxn_group(gid, h, scale, values, xsd=False):
    """xsd=True (C03 host): "x" = the XSD monitor's verdict on the slide part after every real call."""
    from pptx.enum.shapes import MSO_CONNECTOR
    b = bench()
    sc = lambda a: {k: (v * scale if k in ("bx", "by", "ex", "ey", "v", "x", "y", "cx", "cy") else v) for k, v in a.items()}  # noqa: E731
    a0 = sc(h[0])
    kind = [MSO_CONNECTOR.STRAIGHT, MSO_CONNECTOR.ELBOW, MSO_CONNECTOR.CURVE][len(h) % 3]
    if a0["op"] == "load":
        # a connector as a document holds it: the frame attributes are written into the tree with lxml, the proxy is made afterwards
        c = b.slide.shapes.add_connector(kind, 0, 0, 1, 1)
        _, _, _, _, xf = _box(c._element)
        xf.find("{%s}off" % A).set("x", str(a0["x"]))
        xf.find("{%s}off" % A).set("y", str(a0["y"]))
        xf.find("{%s}ext" % A).set("cx", str(a0["cx"]))
        xf.find("{%s}ext" % A).set("cy", str(a0["cy"]))
        for attr, on in (("flipH", a0["fh"]), ("flipV", a0["fv"])):
            if on:
                xf.set(attr, "1")
            elif attr in xf.attrib:
                del xf.attrib[attr]
        if a0.get("rot"):
            xf.set("rot", str(a0["rot"]))
        c = b.slide.shapes[-1]
    else:
        c = b.slide.shapes.add_connector(kind, a0["bx"], a0["by"], a0["ex"], a0["ey"])
    path = [{"a": a0, "t": cxn_state(c), "x": _mon(b.slide, xsd)}]
    for a in h[1:]:
        a = sc(a)
        cxn_apply(c, a)
        path.append({"a": a, "t": cxn_state(c), "x": _mon(b.slide, xsd)})
    steps = []
    for op in ("bx", "by", "ex", "ey"):
        for v in values:
            el = copy.deepcopy(c._element)
            c._element.getparent().append(el)
            c2 = b.slide.shapes[-1]
            a = {"op": op, "v": v * scale, "bx": 0, "by": 0, "ex": 0, "ey": 0}
            cxn_apply(c2, a)
            steps.append({"a": a, "t": cxn_state(c2), "x": _mon(b.slide, xsd)})
            el.getparent().remove(el)
    c._element.getparent().remove(c._element)
    return {"id": gid, "path": path, "steps": steps}


# ---------------------------------------------------------------- groups
LEAF_KINDS = ("autoshape", "textbox", "picture", "connector", "table", "freeform", "chart")


def grp_group(gid, h, scale, kind_salt=0, xsd=False):
    import pptx
    from pptx.enum.shapes import MSO_CONNECTOR, MSO_SHAPE
    prs = bench().prs
    slide = prs.slides.add_slide(prs.slide_layouts[6])
    nodes = []     # (element, is_group) in creation order; index+1 = id

    def shapes_of(pid):
        if pid == 0:
            return slide.shapes
        from pptx.shapes.group import GroupShape
        return GroupShape(nodes[pid - 1][0], slide.shapes).shapes

    def project():
        idx = {id(el): i + 1 for i, (el, _) in enumerate(nodes)}
        out = []
        for i, (el, grp) in enumerate(nodes):
            x, y, cx, cy, xf = _box(el)
            par = el.getparent()
            rec = {"id": i + 1, "parent": idx.get(id(par), 0), "grp": grp, "x": x, "y": y, "cx": cx, "cy": cy,
                   "chx": 0, "chy": 0, "chcx": 0, "chcy": 0}
            if grp:
                co, ce = xf.find("{%s}chOff" % A), xf.find("{%s}chExt" % A)
                rec.update({"chx": int(co.get("x")), "chy": int(co.get("y")), "chcx": int(ce.get("cx")), "chcy": int(ce.get("cy"))})
            out.append(rec)
        return out

    path = []
    nleaf = 0
    for a in h:
        a = dict(a)
        for k in ("x", "y", "cx", "cy"):
            a[k] = a[k] * scale
        if a["op"] == "leaf":
            sh = shapes_of(a["parent"])
            kind = LEAF_KINDS[(nleaf + kind_salt) % len(LEAF_KINDS)]
            nleaf += 1
            x, y, cx, cy = a["x"], a["y"], a["cx"], a["cy"]
            if kind in ("table", "picture") and (cx < 2 or cy < 2):   # 0 is "unspecified" for pictures; tables need >= 1 EMU per row/col
                kind = "autoshape"
            if kind == "table" and a["parent"] != 0:
                kind = "autoshape"      # group shape trees have no add_table
            if kind == "chart":
                from pptx.chart.data import CategoryChartData
                from pptx.enum.chart import XL_CHART_TYPE
                cd = CategoryChartData()
                cd.categories = ["a", "b"]
                cd.add_series("s", (1, 2))
                s = sh.add_chart(XL_CHART_TYPE.PIE, x, y, cx, cy, cd)
            elif kind == "autoshape":
                s = sh.add_shape(MSO_SHAPE.RECTANGLE, x, y, cx, cy)
            elif kind == "textbox":
                s = sh.add_textbox(x, y, cx, cy)
            elif kind == "picture":
                s = sh.add_picture(_png(), x, y, cx, cy)
            elif kind == "connector":
                s = sh.add_connector(MSO_CONNECTOR.STRAIGHT, x, y, x + cx, y + cy)
            elif kind == "table":
                s = sh.add_table(2, 2, x, y, cx, cy)
            else:
                fb = sh.build_freeform(0, 0, scale=1.0)
                fb.add_line_segments([(cx, 0), (cx, cy), (0, cy)], close=True)
                s = fb.convert_to_shape(x, y)
            nodes.append((s._element, False))
        elif a["op"] == "move":
            el = nodes[a["id"] - 1][0]
            idx0 = {id(e): i + 1 for i, (e, _) in enumerate(nodes)}
            shp = next(x for x in shapes_of(idx0.get(id(el.getparent()), 0)) if x._element is el)
            shp.left, shp.top, shp.width, shp.height = a["x"], a["y"], a["cx"], a["cy"]
        elif a["op"] == "group":
            g = shapes_of(a["parent"]).add_group_shape()
            nodes.append((g._element, True))
        else:
            members = [s for s in slide.shapes if any(s._element is nodes[i - 1][0] for i in a["ids"])]
            g = slide.shapes.add_group_shape(members)
            nodes.append((g._element, True))
        a["ids"] = sorted(a.get("ids", []))
        path.append({"a": a, "t": project(), "x": _mon(slide, xsd)})
    # drop the slide again (keeps the bench small)
    lst = prs.part._element.find("{http://schemas.openxmlformats.org/presentationml/2006/main}sldIdLst")
    last = lst[-1]
    prs.part.drop_rel(last.get("{http://schemas.openxmlformats.org/officeDocument/2006/relationships}id"))
    lst.remove(last)
    return {"id": gid, "path": path}


# ---------------------------------------------------------------- freeform
def ff_case(gid, c, salt=0, xsd=False):
    b = bench()
    deltas = (0.0, 0.25, -0.4, 0.49)
    d = lambda k: deltas[(salt + k) % len(deltas)]  # noqa: E731
    fb = b.slide.shapes.build_freeform(c["sx"] + d(0), c["sy"] + d(1), scale=(c["xn"] / c["xd"], c["yn"] / c["yd"]))
    pend = []
    k = 2
    cuts = set(c.get("cuts") or [])
    for n_done, op in enumerate(c["ops"]):
        if n_done in cuts:            # an earlier convert_to_shape on the half-drawn pen; its shape is discarded
            if pend:
                fb.add_line_segments(pend, close=False)
                pend = []
            early = fb.convert_to_shape(c["ox"], c["oy"])
            early._element.getparent().remove(early._element)
        if op["k"] == "line":
            pend.append((op["x"] + d(k), op["y"] + d(k + 1)))
            k += 2
        elif op["k"] == "close":
            fb.add_line_segments(pend, close=True)
            pend = []
        else:
            if pend:
                fb.add_line_segments(pend, close=False)
                pend = []
            fb.move_to(op["x"] + d(k), op["y"] + d(k + 1))
            k += 2
    if pend:
        fb.add_line_segments(pend, close=False)
    s = fb.convert_to_shape(c["ox"], c["oy"])
    el = s._element
    path = next(el.iter("{%s}path" % A))
    pts = []
    for ch in path:
        ln = ch.tag.split("}")[1]
        if ln == "close":
            pts.append({"k": "close", "x": 0, "y": 0})
        else:
            pt = ch.find("{%s}pt" % A)
            pts.append({"k": "move" if ln == "moveTo" else "line", "x": int(pt.get("x")), "y": int(pt.get("y"))})
    t = {"x": int(s.left), "y": int(s.top), "cx": int(s.width), "cy": int(s.height), "w": int(path.get("w")), "h": int(path.get("h")), "pts": pts}
    x, y, cx, cy, _ = _box(el)
    if (x, y, cx, cy) != (t["x"], t["y"], t["cx"], t["cy"]):
        t["x"] = -999999   # readers disagree with the serialised frame
    mon = _mon(b.slide, xsd)
    el.getparent().remove(el)
    return {"id": gid, "c": c, "t": t, "xsd": mon}
