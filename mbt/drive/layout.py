"""Driver for Layout.tla (C13): placeholder populations, slide additions, inheritance readers."""
from __future__ import annotations

import io

from lxml import etree

from mbt.drive import opc as D

P = "http://schemas.openxmlformats.org/presentationml/2006/main"
A = "http://schemas.openxmlformats.org/drawingml/2006/main"


def _ph_elms(root):
    tree = root.find("{%s}cSld/{%s}spTree" % (P, P))
    out = []
    for el in (tree if tree is not None else []):
        if not isinstance(el.tag, str):
            continue
        ph = el.find("*/{%s}nvPr/{%s}ph" % (P, P))
        if ph is not None:
            out.append((el, ph))
    return out


def read_phs(root, proxies=None) -> list[dict]:
    """Placeholder records in document order from the lxml tree; readers from the matching shape proxies."""
    res = []
    for el, ph in _ph_elms(root):
        xf = el.find("{%s}spPr/{%s}xfrm" % (P, A))
        if xf is None:
            xf = el.find("{%s}xfrm" % P)
        off = xf.find("{%s}off" % A) if xf is not None else None
        ext = xf.find("{%s}ext" % A) if xf is not None else None
        po, pe = off is not None, ext is not None
        own = po and pe
        cnv = next(el.iter("{%s}cNvPr" % P))
        rec = {"car": etree.QName(el).localname, "type": ph.get("type", "obj"), "idx": int(ph.get("idx", "0")), "orient": ph.get("orient", "horz"), "sz": ph.get("sz", "full"),
               "own": own, "po": po, "pe": pe, "x": int(off.get("x")) if po else 0, "y": int(off.get("y")) if po else 0,
               "cx": int(ext.get("cx")) if pe else 0, "cy": int(ext.get("cy")) if pe else 0, "name": cnv.get("name", ""),
               "rd": False, "rdo": False, "rde": False, "rx": 0, "ry": 0, "rcx": 0, "rcy": 0}
        if proxies is not None:
            pr = next((s for s in proxies if s._element is el), None)
            if pr is not None:
                try:
                    vals = (pr.left, pr.top, pr.width, pr.height)
                except Exception as e:      # a reader that raises reports nothing: recorded, judged by PhInherit
                    vals = (-2, -2, -2, -2)
                    rec["raised"] = type(e).__name__
                # pair by pair (position, size); a pair of which only one reader returned a number is judged as a mismatch (-1, -1)
                for flag, (a, b), (ka, kb) in (("rdo", vals[:2], ("rx", "ry")), ("rde", vals[2:], ("rcx", "rcy"))):
                    if a is not None and b is not None:
                        rec.update({flag: True, ka: int(a), kb: int(b)})
                    elif a is not None or b is not None:
                        rec.update({flag: True, ka: -1, kb: -1})
                rec["rd"] = rec["rdo"] and rec["rde"]
        res.append(rec)
    return res


def observe(prs) -> dict:
    lays = list(prs.slide_layouts) if len(prs.slide_masters) == 1 else [l for m in prs.slide_masters for l in m.slide_layouts]
    slides = []
    for s in prs.slides:
        li = next((i + 1 for i, l in enumerate(lays) if l.part is s.slide_layout.part), 0)
        slides.append({"tok": D.generic_token(s.part.blob, True), "layout": li, "phs": read_phs(s.part._element, list(s.shapes))})
    return {"slides": slides}


def layouts_of(prs):
    lays = list(prs.slide_layouts) if len(prs.slide_masters) == 1 else [l for m in prs.slide_masters for l in m.slide_layouts]
    lay = [read_phs(l.part._element) for l in lays]
    mas = []
    for l in lays:
        try:
            mas.append(read_phs(l.slide_master.part._element))
        except KeyError:          # fixture decks with a layout that has no master relationship
            mas.append([])
    return lays, lay, mas


def ph_xml(i: int, p: dict) -> str:
    attrs = ' type="%s"' % p["type"]
    if p["idx"] != 0 or p.get("nm") == "idx0":
        attrs += ' idx="%d"' % p["idx"]
    if p["orient"] != "horz":
        attrs += ' orient="%s"' % p["orient"]
    if p["sz"] != "full":
        attrs += ' sz="%s"' % p["sz"]
    geo = (100000 * i, 0 if i % 2 == 0 else 200000 * i, 3000000 + 1000 * i, 1000000 + 7 * i)
    car = p.get("car", "sp")
    nm = {"same": "Shared Placeholder Name", "amp": "A &amp; &quot;B&quot; &lt;C&gt; %d" % (i + 1)}.get(p.get("nm", "u"), "Gen Placeholder %d" % (i + 1))
    if car == "pic":         # a picture placeholder that was filled on the layout
        return ('<p:pic xmlns:p="%s" xmlns:a="%s"><p:nvPicPr><p:cNvPr id="%d" name="%s"/><p:cNvPicPr><a:picLocks noGrp="1"/></p:cNvPicPr>'
                '<p:nvPr><p:ph%s/></p:nvPr></p:nvPicPr><p:blipFill><a:blip/><a:stretch><a:fillRect/></a:stretch></p:blipFill><p:spPr>%s</p:spPr></p:pic>'
                % (P, A, i + 2, nm, attrs, ('<a:xfrm><a:off x="%d" y="%d"/><a:ext cx="%d" cy="%d"/></a:xfrm>' % geo) if p["own"] else ""))
    if car == "gf":          # a table / chart / diagram placeholder that was filled on the layout
        return ('<p:graphicFrame xmlns:p="%s" xmlns:a="%s"><p:nvGraphicFramePr><p:cNvPr id="%d" name="%s"/><p:cNvGraphicFramePr>'
                '<a:graphicFrameLocks noGrp="1"/></p:cNvGraphicFramePr><p:nvPr><p:ph%s/></p:nvPr></p:nvGraphicFramePr>'
                '<p:xfrm><a:off x="%d" y="%d"/><a:ext cx="%d" cy="%d"/></p:xfrm><a:graphic><a:graphicData '
                'uri="http://schemas.openxmlformats.org/drawingml/2006/table"><a:tbl><a:tblPr/><a:tblGrid/></a:tbl></a:graphicData></a:graphic>'
                '</p:graphicFrame>' % ((P, A, i + 2, nm, attrs) + geo))
    xfrm = ('<a:xfrm><a:off x="%d" y="%d"/><a:ext cx="%d" cy="%d"/></a:xfrm>' % geo) if p["own"] else ""   # first one sits at (0, 0)
    if p["own"] and p.get("part", "full") == "off":       # a position without a size / a size without a position
        xfrm = '<a:xfrm><a:off x="%d" y="%d"/></a:xfrm>' % geo[:2]
    elif p["own"] and p.get("part", "full") == "ext":
        xfrm = '<a:xfrm><a:ext cx="%d" cy="%d"/></a:xfrm>' % geo[2:]
    return ('<p:sp xmlns:p="%s" xmlns:a="%s"><p:nvSpPr><p:cNvPr id="%d" name="%s"/><p:cNvSpPr><a:spLocks noGrp="1"/></p:cNvSpPr>'
            '<p:nvPr><p:ph%s/></p:nvPr></p:nvSpPr><p:spPr>%s</p:spPr><p:txBody><a:bodyPr/><a:lstStyle/><a:p><a:endParaRPr lang="en-US"/></a:p></p:txBody></p:sp>'
            % (P, A, i + 2, nm, attrs, xfrm))


GEN_LAYOUT = 2      # the layout part rewritten for generated populations (slideLayout2.xml)
_BASE = {}


def gen_deck(pop: list[dict]) -> bytes:
    import pptx
    if "raw" not in _BASE:
        b = io.BytesIO()
        pptx.Presentation().save(b)
        _BASE["raw"] = D.read_zip(io.BytesIO(b.getvalue()))
    members = dict(_BASE["raw"])
    name = "ppt/slideLayouts/slideLayout%d.xml" % GEN_LAYOUT
    root = etree.fromstring(members[name])
    tree = root.find("{%s}cSld/{%s}spTree" % (P, P))
    for el, _ in _ph_elms(root):
        tree.remove(el)
    for i, p in enumerate(pop):
        tree.append(etree.fromstring(ph_xml(i, p)))
    members[name] = etree.tostring(root, xml_declaration=True, encoding="UTF-8", standalone=True)
    out = io.BytesIO()
    D.write_zip(members, out)
    return out.getvalue()


def run(tid: str, raw_or_path, history: list[dict], xsd: bool = False) -> dict:
    """xsd=True (C03 host): every step also logs "xsd" = the XSD monitor's error signatures over all slide and notes-slide parts."""
    import pptx
    prs = pptx.Presentation(io.BytesIO(raw_or_path) if isinstance(raw_or_path, bytes) else raw_or_path)
    lays, lay, mas = layouts_of(prs)

    def mon():
        if not xsd:
            return []
        from mbt.monitor import xsd as X
        out = set()
        for s in prs.slides:
            out.update(X.errors(s._element))
            if s.has_notes_slide:
                out.update("notes:" + e for e in X.errors(s.notes_slide._element))
        return sorted(out)
    steps = [{"a": {"op": "open", "l": 0, "k": 0, "j": 0, "x": 0, "y": 0, "cx": 0, "cy": 0}, "out": "ok", "t": observe(prs), "notes": [], "lay": [], "xsd": mon()}]
    nmas = []
    for a in history:
        a = dict({"l": 0, "k": 0, "j": 0, "x": 0, "y": 0, "cx": 0, "cy": 0}, **a)
        notes = []
        try:
            if a["op"] == "addSlide":
                prs.slides.add_slide(lays[a["l"] - 1])
            elif a["op"] == "setGeom":
                s = prs.slides[a["k"] - 1]
                el = _ph_elms(s.part._element)[a["j"] - 1][0]
                sh = next(x for x in s.shapes if x._element is el)
                sh.left, sh.top, sh.width, sh.height = a["x"], a["y"], a["cx"], a["cy"]
            elif a["op"] == "addShape":
                prs.slides[a["k"] - 1].shapes.add_textbox(5, 6, 700, 800).text_frame.text = "x"
            elif a["op"] == "notes":
                s = prs.slides[a["k"] - 1]
                ns = s.notes_slide
                notes = read_phs(ns.part._element, list(ns.shapes))
                nmas = read_phs(prs.notes_master.part._element)
            elif a["op"] in ("dropPh", "movePh"):
                tree = lays[a["l"] - 1].part._element.cSld.spTree
                el = _ph_elms(lays[a["l"] - 1].part._element)[a["j"] - 1][0]
                el.getparent().remove(el)
                if a["op"] == "movePh":
                    tree.insert_element_before(el, "p:extLst")
            elif a["op"] == "reopen":
                b = io.BytesIO()
                prs.save(b)
                prs = pptx.Presentation(io.BytesIO(b.getvalue()))
                lays, _, _ = layouts_of(prs)
            out = "ok"
        except Exception as e:
            out = type(e).__name__ + ":" + str(e)[:100]
        now = read_phs(lays[a["l"] - 1].part._element) if a["l"] else []
        steps.append({"a": a, "out": out if out == "ok" else out.split(":")[0], "err": out, "t": observe(prs), "notes": notes, "lay": now, "xsd": mon()})
    return {"id": tid, "lay": lay, "mas": mas, "nmas": nmas, "steps": steps}
