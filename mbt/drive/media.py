"""Driver for Media.tla (C15): generated images, additions through the public API, media projection."""
from __future__ import annotations

import hashlib
import io
import os
from fractions import Fraction

from mbt.drive import faults as F
from mbt.drive import opc as D

EMU = 914400


def sniff(b: bytes) -> str:
    """Actual image format by magic bytes (independent of Pillow's naming)."""
    if b[:8] == b"\x89PNG\r\n\x1a\n":
        return "PNG"
    if b[:2] == b"\xff\xd8":
        return "JPEG"
    if b[:4] in (b"GIF8",):
        return "GIF"
    if b[:2] == b"BM":
        return "BMP"
    if b[:4] in (b"II*\x00", b"MM\x00*"):
        return "TIFF"
    if len(b) > 44 and b[:4] == b"\x01\x00\x00\x00" and b[40:44] == b" EMF":
        return "EMF"
    if b[:4] == b"\xd7\xcd\xc6\x9a":
        return "WMF"
    return "?"


def norm_dpi(v) -> int:
    """The documented normalisation: nearest integer; 72 when absent, non-numeric, < 1 or > 2048."""
    try:
        f = float(v)
        n = int(f + 0.5) if f >= 0 else -int(-f + 0.5)
        return 72 if n < 1 or n > 2048 else n
    except (TypeError, ValueError):
        return 72


_SPECS = [  # (fmt, file name the image is called by, size, dpi kwarg)
    ("PNG", "a.png", (4, 3), None),
    ("JPEG", "photo.png", (5, 5), (96, 96)),
    ("GIF", "anim.jpg", (3, 7), None),
    ("BMP", "b.bmp", (6, 2), (300, 300)),
    ("TIFF", "scan.gif", (8, 8), (150.3, 75.2)),
    ("PNG", "zero.png", (10, 4), (0, 0)),
    ("PNG", "huge.jpeg", (2, 2), (100000, 100000)),
    ("JPEG", "nonsquare.jpg", (7, 3), (72, 144)),
    ("PNG", "big.tif", (64, 48), (72.009, 72.009)),
    ("GIF", "one.gif", (1, 1), None),
    ("BMP", "lowres.bmp", (9, 9), (10, 10)),
    # resolutions that do not divide 914400 (EMU per inch): the native size is a rounded quotient, not a multiple of a whole EMU-per-pixel
    ("PNG", "odd.png", (5, 4), (110, 110)),
    ("JPEG", "p64.jpg", (9, 2), (64, 350)),
    ("TIFF", "fine.tif", (3, 5), (2048, 7)),
    # the same format, pixel size and resolution as b.bmp and therefore the same BYTE LENGTH, other pixels: two files no file-system
    # attribute tells apart (via "samepath" writes one image after the other to one path)
    ("BMP", "b2.bmp", (6, 2), (300, 300)),
    # eight more PNGs: a deck can hold more than ten images of ONE format (image1.png .. image10.png and beyond)
] + [("PNG", "p%d.png" % k, (2 + k, 3), None) for k in range(1, 9)] + [
    # photographs as a camera held upright writes them: the pixel rows are stored sideways and an EXIF Orientation tag (6: rotate 90 CW
    # to display, 8: rotate 270) says so.  The statement's "pixel dimensions of the actual image" are those of the stored pixel grid
    # (fifth field: the orientation written into the file's EXIF block)
    ("JPEG", "upright.jpg", (8, 3), (72, 72), 6),
    ("PNG", "upright.png", (5, 9), None, 8),
]


def universe() -> list[dict]:
    from PIL import Image
    import pptx
    out = []
    for i, spec in enumerate(_SPECS):
        fmt, name, size, dpi = spec[:4]
        im = Image.new("RGB", size, ((i * 53 + 17) % 256, (i * 101) % 256, (i * 29 + 90) % 256))
        if fmt == "GIF":
            im = im.convert("P")
        b = io.BytesIO()
        kw = {"dpi": dpi} if dpi is not None else {}
        if len(spec) > 4:
            exif = Image.Exif()
            exif[0x0112] = spec[4]
            kw["exif"] = exif
        im.save(b, fmt, **kw)
        out.append({"bytes": b.getvalue(), "file": name})
    from pptx.media import SPEAKER_IMAGE_BYTES
    out.append({"bytes": SPEAKER_IMAGE_BYTES, "file": "speaker.png"})
    tdir = os.path.join(os.path.dirname(pptx.__file__), "templates")
    with open(os.path.join(tdir, "generic-icon.emf"), "rb") as f:
        out.append({"bytes": f.read(), "file": "generic-icon.emf"})
    for u in out:
        im = Image.open(io.BytesIO(u["bytes"]))
        dpi = im.info.get("dpi")
        u.update({"fmt": sniff(u["bytes"]), "ext": u["file"].rsplit(".", 1)[1], "pw": im.size[0], "ph": im.size[1],
                  "dx": norm_dpi(dpi[0]) if isinstance(dpi, tuple) else 72, "dy": norm_dpi(dpi[1]) if isinstance(dpi, tuple) else 72,
                  "sha1": hashlib.sha1(u["bytes"]).hexdigest()})
    return out


def table(U) -> list[dict]:
    return [{k: u[k] for k in ("fmt", "ext", "pw", "ph", "dx", "dy")} for u in U]


LOGO_LAYOUT = "ppt/slideLayouts/slideLayout11.xml"
_NS_P = "http://schemas.openxmlformats.org/presentationml/2006/main"
_NS_CT = "http://schemas.openxmlformats.org/package/2006/content-types"
_NS_PR = "http://schemas.openxmlformats.org/package/2006/relationships"
_RT_IMAGE = "http://schemas.openxmlformats.org/officeDocument/2006/relationships/image"
_EXT = {"PNG": ("png", "image/png"), "JPEG": ("jpg", "image/jpeg"), "GIF": ("gif", "image/gif"), "BMP": ("bmp", "image/bmp"),
        "TIFF": ("tiff", "image/tiff"), "EMF": ("emf", "image/x-emf"), "WMF": ("wmf", "image/x-wmf")}


def logo_deck(u: dict) -> bytes:
    """The default template with a picture of image `u` on slide layout 11 (the usual shape of a corporate template), written with
    zipfile + lxml only: /ppt/media/image1.<ext>, a relationship from the layout, a p:pic in its shape tree."""
    import pptx
    from lxml import etree
    b = io.BytesIO()
    pptx.Presentation().save(b)
    mem = D.read_zip(io.BytesIO(b.getvalue()))
    ext, ctype = _EXT[u["fmt"]]
    assert not any(n.startswith("ppt/media/") for n in mem)
    mem["ppt/media/image1." + ext] = u["bytes"]
    ct = etree.fromstring(mem["[Content_Types].xml"])
    if not any(d.get("Extension", "").lower() == ext for d in ct.findall("{%s}Default" % _NS_CT)):
        d = etree.Element("{%s}Default" % _NS_CT)
        d.set("Extension", ext)
        d.set("ContentType", ctype)
        ct.insert(0, d)
    mem["[Content_Types].xml"] = etree.tostring(ct, xml_declaration=True, encoding="UTF-8", standalone=True)
    rn = "ppt/slideLayouts/_rels/slideLayout11.xml.rels"
    rels = etree.fromstring(mem[rn])
    r = etree.SubElement(rels, "{%s}Relationship" % _NS_PR)
    r.set("Id", "rId77")
    r.set("Type", _RT_IMAGE)
    r.set("Target", "../media/image1." + ext)
    mem[rn] = etree.tostring(rels, xml_declaration=True, encoding="UTF-8", standalone=True)
    lay = etree.fromstring(mem[LOGO_LAYOUT])
    tree = lay.find("{%s}cSld/{%s}spTree" % (_NS_P, _NS_P))
    pic = etree.fromstring(
        '<p:pic xmlns:p="%s" xmlns:a="http://schemas.openxmlformats.org/drawingml/2006/main" '
        'xmlns:r="http://schemas.openxmlformats.org/officeDocument/2006/relationships">'
        '<p:nvPicPr><p:cNvPr id="977" name="Logo"/><p:cNvPicPr/><p:nvPr/></p:nvPicPr>'
        '<p:blipFill><a:blip r:embed="rId77"/><a:stretch><a:fillRect/></a:stretch></p:blipFill>'
        '<p:spPr><a:xfrm><a:off x="100" y="100"/><a:ext cx="300000" cy="300000"/></a:xfrm><a:prstGeom prst="rect"><a:avLst/></a:prstGeom></p:spPr>'
        '</p:pic>' % _NS_P)
    ext_lst = tree.find("{%s}extLst" % _NS_P)
    if ext_lst is not None:
        ext_lst.addprevious(pic)
    else:
        tree.append(pic)
    mem[LOGO_LAYOUT] = etree.tostring(lay, xml_declaration=True, encoding="UTF-8", standalone=True)
    out = io.BytesIO()
    D.write_zip(mem, out)
    return out.getvalue()


class Run:
    def __init__(self, U, scratch: str, nimg: int, logo: int = 0, npre: int = 0, alias: bool = False):
        import pptx
        self.pptx = pptx
        self.U = U
        self.by_sha = {u["sha1"]: i + 1 for i, u in enumerate(U)}
        self.scratch = scratch
        self.nimg = nimg
        os.makedirs(scratch, exist_ok=True)
        self.prs = pptx.Presentation(io.BytesIO(logo_deck(U[logo - 1]))) if logo else pptx.Presentation()
        self.prs.slides.add_slide(self.prs.slide_layouts[6])
        self.prs.slides.add_slide(self.prs.slide_layouts[6])
        if npre:        # the deck as opened already shows the images 1..npre (second slide), stored as image1 .. image<npre>
            for i in range(npre):
                self.prs.slides[1].shapes.add_picture(io.BytesIO(U[i]["bytes"]), 1000 * i, 2000 * i)
            b = io.BytesIO()
            self.prs.save(b)
            raw = b.getvalue()
            if alias:       # the JPEG parts declared as another producer spells the type
                mem = D.read_zip(io.BytesIO(raw))
                mem["[Content_Types].xml"] = mem["[Content_Types].xml"].replace(b'"image/jpeg"', b'"image/jpg"')
                out = io.BytesIO()
                D.write_zip(mem, out)
                raw = out.getvalue()
            self.prs = pptx.Presentation(io.BytesIO(raw))
        self.pics = []
        self.refs = []            # (slide position, shape id) of every recorded picture, to re-read what it shows now
        self.last_raw = None

    def _src(self, img: int, via: str):
        u = self.U[img - 1]
        if via == "samepath":          # ONE file, overwritten with the image wanted each time
            p = os.path.join(self.scratch, "%d_current_image" % os.getpid())
            with open(p, "wb") as f:
                f.write(u["bytes"])
            return p
        if via == "path":
            p = os.path.join(self.scratch, "%d_%s" % (os.getpid(), u["file"]))
            with open(p, "wb") as f:
                f.write(u["bytes"])
            return p
        b = io.BytesIO(u["bytes"])
        if via == "usedstream":        # a stream the caller has looked into already (its size, its format): the cursor is mid-way
            b.read(len(u["bytes"]) // 2)
        return b

    def _note_pic(self, slide, pic, a):
        u = None
        img = self.by_sha.get(pic.image.sha1, 0)
        ok = True
        if a["args"] in ("w", "h") and img:
            u = self.U[img - 1]
            nw, nh = Fraction(EMU * u["pw"], u["dx"]), Fraction(EMU * u["ph"], u["dy"])
            cx, cy = int(pic.width), int(pic.height)
            # "to within rounding": the native size is itself a whole number of EMU in each dimension; one EMU of rounding in either
            # native dimension, carried through the ratio, plus the final rounding (factor 2 as slack)
            if a["args"] == "w":
                exp = Fraction(cx) * nh / nw
                ok = cx == a["cx"] and abs(cy - exp) <= 1 + 2 * (Fraction(cx) / nw) * (1 + nh / nw)
            else:
                exp = Fraction(cy) * nw / nh
                ok = cy == a["cy"] and abs(cx - exp) <= 1 + 2 * (Fraction(cy) / nh) * (1 + nw / nh)
        self.refs.append((slide, pic.shape_id))
        self.pics.append({"slide": slide, "img": img, "blobOk": bool(img) and pic.image.blob == self.U[img - 1]["bytes"],
                          "cx": int(pic.width), "cy": int(pic.height), "args": a["args"], "aspectOk": bool(ok), "via": a["via"]})

    def apply(self, a) -> str:
        try:
            op = a["op"]
            prs = self.prs
            if op == "addPicture":
                sl = prs.slides[a["slide"] - 1]
                kw = {}
                if a["args"] in ("w", "both"):
                    kw["width"] = a["cx"]
                if a["args"] in ("h", "both"):
                    kw["height"] = a["cy"]
                target = sl.shapes
                if a["via"] == "ingroup":
                    # into a group that was RESIZED (its frame is not its child window: a:ext != a:chExt, as after a resize in PowerPoint
                    # or through group.width / group.height): the picture's native size is the image's, whatever the group looks like
                    from pptx.enum.shapes import MSO_SHAPE
                    g = sl.shapes.add_group_shape()
                    g.shapes.add_shape(MSO_SHAPE.RECTANGLE, 0, 0, 1000000, 500000)
                    g.width, g.height = 3000000, 700000
                    target = g.shapes
                pic = target.add_picture(self._src(a["img"], a["via"]), 11111, 22222, **kw)
                self._note_pic(a["slide"], pic, a)
            elif op == "insertPicture":
                sl = prs.slides.add_slide(prs.slide_layouts[8])
                ph = next(p for p in sl.placeholders if p.placeholder_format.type is not None and "PICTURE" in str(p.placeholder_format.type))
                pic = ph.insert_picture(self._src(a["img"], a["via"]))
                self._note_pic(len(prs.slides), pic, dict(a, args="ph"))
            elif op == "addMovie":
                from mbt.drive.deck import VIDEO
                sl = prs.slides[a["slide"] - 1]
                sl.shapes.add_movie(io.BytesIO(VIDEO), 0, 0, 500000, 300000,
                                    poster_frame_image=self._src(a["img"], "stream") if a["img"] else None, mime_type="video/mp4")
            elif op == "addOle":
                from mbt.drive.deck import OLEBYTES
                sl = prs.slides[a["slide"] - 1]
                sl.shapes.add_ole_object(io.BytesIO(OLEBYTES), "Verif.Thing.1", 0, 0,
                                         icon_file=self._src(a["img"], "stream") if a["img"] else None)
            elif op == "removeLayout":
                lays = prs.slide_layouts
                lays.remove(lays[10])
            elif op in ("save", "reopen"):
                b = io.BytesIO()
                prs.save(b)
                self.last_raw = b.getvalue()
                if op == "reopen":
                    self.prs = self.pptx.Presentation(io.BytesIO(self.last_raw))
            else:
                raise RuntimeError("unknown op " + op)
            return "ok"
        except Exception as e:
            return type(e).__name__ + ":" + str(e)[:80]

    def observe(self) -> dict:
        media = []
        for p in self.prs.part.package.iter_parts():
            pn = str(p.partname)
            if pn.startswith("/ppt/media/") and (str(p.content_type).startswith("image/") or pn.startswith("/ppt/media/image")):
                media.append({"name": pn, "ext": pn.rsplit(".", 1)[-1] if "." in pn else "", "ctype": str(p.content_type),
                              "img": self.by_sha.get(hashlib.sha1(p.blob).hexdigest(), 0)})
        return {"media": sorted(media, key=lambda m: m["name"]), "pics": self._pics_now()}

    def _pics_now(self) -> list[dict]:
        """The recorded pictures, each with the image its shape shows NOW (looked up again by slide position and shape id)."""
        out = []
        slides = self.prs.slides
        for p, (k, sid) in zip(self.pics, self.refs):
            now = -1
            try:
                def walk(shs):
                    for s_ in shs:
                        yield s_
                        if s_.shape_type is not None and s_.shape_type.name == "GROUP":
                            yield from walk(s_.shapes)
                shp = next(s for s in walk(slides[k - 1].shapes) if s.shape_id == sid)
                now = self.by_sha.get(hashlib.sha1(shp.image.blob).hexdigest(), 0)
            except Exception:
                now = -1
            out.append(dict(p, now=now))
        return out

    def saved(self, raw: bytes) -> dict:
        members = D.read_zip(io.BytesIO(raw))
        media = []
        for n, b in members.items():
            ct = F.ct_of(members, "/" + n) or ""
            if n.startswith("ppt/media/") and (ct.startswith("image/") or n.startswith("ppt/media/image")):
                media.append({"name": "/" + n, "ext": n.rsplit(".", 1)[-1] if "." in n else "", "ctype": ct,
                              "img": self.by_sha.get(hashlib.sha1(b).hexdigest(), 0)})
        return {"media": sorted(media, key=lambda m: m["name"]), "pics": self._pics_now(), "dup": "<<duplicate-member>>" in members}


def run_history(hid, h, U, scratch, nimg, logo=0, npre=0, alias=False):
    run = Run(U, scratch, nimg, logo, npre, alias)
    steps, saved = [], []
    init = run.observe()

    def fix(a):
        a = dict(a)
        if a["op"] == "addMovie" and a["img"] == 0:
            a["_default"] = nimg + 1
        if a["op"] == "addOle" and a["img"] == 0:
            a["_default"] = nimg + 2
        return a
    for i, a in enumerate(h, start=1):
        out = run.apply(a)
        aa = {k: v for k, v in a.items()}
        # the default poster frame / default OLE icon are universe images NIMG+1 / NIMG+2
        if a["op"] == "addMovie" and a["img"] == 0:
            aa["img"] = len(U) - 1
        if a["op"] == "addOle" and a["img"] == 0:
            aa["img"] = len(U)
        t = run.observe()
        steps.append({"a": aa, "out": out if out == "ok" else out.split(":")[0], "t": t, "err": out})
        if a["op"] in ("save", "reopen") and run.last_raw:
            saved.append({"at": i, "t": run.saved(run.last_raw), "mem": t})
    b = io.BytesIO()
    run.prs.save(b)
    mem = run.observe()
    # the pictures of the final saved file are read from the file itself: it is re-opened first
    try:
        run.prs = run.pptx.Presentation(io.BytesIO(b.getvalue()))
    except Exception:
        run.refs = [(0, 0)] * len(run.refs)          # cannot be re-opened: no picture shows anything (C02 names the cause)
    saved.append({"at": len(h) + 1, "t": run.saved(b.getvalue()), "mem": mem})
    return {"id": hid, "h": h, "init": init, "steps": steps, "saved": saved}
