"""Driver for TextBody.tla (C04): real text bodies through the public API, projected from the lxml tree plus the
public .text readers; save / re-open through BytesIO.

A scenario is {"id", "site" (frame|cell|shape), "prior" (1..4), "build": [builder actions of the prior], "acts": [actions]}.
Strings are sequences of class tokens (spec/TextBody.tla); `concretise` picks a concrete representative for every
position (token = class + 16 * variant), `classify` maps observed text back to tokens without knowing what was
assigned.  Many scenarios share one presentation (one shape each) so that a save/re-open costs one package round trip
per batch; a global re-open happens only when every unfinished scenario of the batch is waiting at a SaveReopen action."""
from __future__ import annotations

import io
import random
import re
import zlib

from lxml import etree

A = "http://schemas.openxmlformats.org/drawingml/2006/main"
P = "http://schemas.openxmlformats.org/presentationml/2006/main"
_P, _R, _BR, _FLD, _T, _PPR, _END = ("{%s}%s" % (A, x) for x in ("p", "r", "br", "fld", "t", "pPr", "endParaRPr"))
_TXB = ("{%s}txBody" % P, "{%s}txBody" % A)

NL, VT, TAB, CR, C0, SP, LT, AMP, GT, QUOT, PLAIN, ASTRAL, XESC, C1, DEL = range(1, 16)
CLASS_NAMES = {1: "NL", 2: "VT", 3: "TAB", 4: "CR", 5: "C0", 6: "SP", 7: "LT", 8: "AMP", 9: "GT", 10: "QUOT", 11: "PLAIN",
               12: "ASTRAL", 13: "XESC", 14: "C1", 15: "DEL"}
REPS = {
    NL: ["\n"], VT: ["\v"], TAB: ["\t"], CR: ["\r"],
    C0: [chr(c) for c in range(0x20) if c not in (0x09, 0x0A, 0x0B, 0x0D)],            # the 28 other C0 controls (CR is its own class)
    SP: [" "], LT: ["<"], AMP: ["&"], GT: [">"], QUOT: ['"', "'"],
    # no "x" here: an "x" next to "_" and hex digits could fake an escape and make tokenising ambiguous
    PLAIN: ["a", "Z", "0", "_", "]", ";", "#", "-", "\u00e9", "\u00a0", "\u3000", "\u2028", "\ufeff", "\ufffd", "\ud7ff", "\ue000", "\u6f22"],
    ASTRAL: ["\U00010000", "\U0001F600", "\U0010FFFF", "\U0002F800", "\U0001FFFE"],
    # text that looks like an escape but cannot be produced by escaping a C0 control (NL is never escaped, the escaper
    # writes upper-case hex): it must read back unchanged
    XESC: ["_x000A_", "_x000a_", "_x0041_", "_x005F_", "_x001b_"],
    C1: ["\x80", "\x85", "\x9f"], DEL: ["\x7f"],
}
UNKNOWN = 9999
_TOK = {}
for _c, _reps in REPS.items():
    for _v, _s in enumerate(_reps):
        _TOK[_s] = _c + 16 * _v
_ESC_RE = re.compile(r"_x([0-9A-Fa-f]{4})_")
_UPPER_RE = re.compile(r"_x[0-9A-F]{4}_")


def tok_class(t: int) -> int:
    return PLAIN if t >= 1000 else t % 16


def concretise(tokens: list[int], rng: random.Random | None) -> tuple[str, list[int]]:
    """Class tokens -> (concrete string, refined tokens). Without rng every class takes its first representative."""
    out, ref = [], []
    for t in tokens:
        c, v = t % 16, t // 16
        reps = REPS[c]
        if rng is not None and v == 0:
            v = rng.randrange(len(reps))
        out.append(reps[v])
        ref.append(c + 16 * v)
    return "".join(out), ref


def to_concrete(tokens: list[int]) -> str:
    return "".join(REPS[t % 16][t // 16] for t in tokens)


def classify(text: str) -> list[int]:
    """Observed text -> tokens. `_xHHHH_` with upper-case hex naming a C0 control other than NL is the escape token of
    that control (1000 + its token); the listed look-alikes are XESC; everything else is classified per character."""
    res, i, n = [], 0, len(text)
    while i < n:
        ch = text[i]
        if ch == "_" and i + 7 <= n:
            seg = text[i:i + 7]
            if seg in _TOK:
                res.append(_TOK[seg])
                i += 7
                continue
            if _UPPER_RE.fullmatch(seg):
                code = int(seg[2:6], 16)
                if code < 0x20 and code != 0x0A:
                    res.append(1000 + _TOK[chr(code)])
                    i += 7
                    continue
        res.append(_TOK.get(ch, UNKNOWN))
        i += 1
    return res


_PROPS = {(): 4, (("algn", "ctr"),): 1, (("algn", "r"), ("lvl", "1")): 2, (("lvl", "2"),): 3}


def project_body(shape_el) -> list[dict]:
    """Seq(Para) of spec/TextBody.tla from the element of a p:sp / p:graphicFrame, plain lxml calls only."""
    txb = next(shape_el.iter(*_TXB), None)
    body = []
    if txb is None:              # a shape without a text body holds no paragraph
        return body
    for p in txb:
        if p.tag != _P:
            continue
        props, items = 0, []
        for ch in p:
            tag = ch.tag
            if tag == _R or tag == _FLD:
                ts = [x for x in ch if x.tag == _T]
                txt = (ts[0].text or "") if len(ts) == 1 and len(ts[0]) == 0 else None
                items.append({"k": "r" if tag == _R else "fld", "t": classify(txt) if txt is not None else [UNKNOWN]})
            elif tag == _BR:
                items.append({"k": "br", "t": []})
            elif tag == _PPR and props == 0:
                props = _PROPS.get(tuple(sorted(ch.attrib.items())), 9) if len(ch) == 0 else 9
        body.append({"props": props, "items": items})
    return body


class _Handle:
    """One scenario's container inside the shared presentation."""

    def __init__(self, site, shape):
        self.site, self.shape = site, shape

    @property
    def holder(self):
        if self.site == "spanned":          # the cell hidden behind a merge (1 x 2 table, cells merged): still a cell with a text body of its own
            return self.shape.table.cell(0, 1)
        return self.shape.table.cell(0, 0) if self.site == "cell" else self.shape

    @property
    def body_root(self):
        """The element whose (first) text body is this container's: the a:tc for cell sites, the shape element otherwise."""
        if self.site in ("cell", "spanned"):
            tcs = [el for el in self.shape._element.iter("{%s}tc" % A)]
            return tcs[1 if self.site == "spanned" else 0]
        return self.shape._element

    @property
    def tf(self):
        return self.holder.text_frame

    def read_frame(self) -> str:
        # the reader of the entry point under test: TextFrame.text, _Cell.text, Shape.text
        return self.tf.text if self.site in ("frame", "nobody") else self.holder.text

    def observe(self) -> dict:
        try:
            return self._observe()
        except Exception:       # noqa: BLE001  a reader that raises reads nothing: the tree is still projected, the readers are "unknown"
            try:
                body = project_body(self.body_root)
            except Exception:   # noqa: BLE001
                body = []
            return {"body": body, "rd": {"frame": [UNKNOWN], "paras": [[UNKNOWN] for _ in body], "runs": [[] for _ in body]},
                    "rdk": [[UNKNOWN] for _ in body]}

    def _observe(self) -> dict:
        paras = self.tf.paragraphs
        if getattr(self, "kept", None) is None:
            # an object with a life: the text frame a caller obtained once (after the prior body was built) and keeps reading through
            self.kept = self.holder.text_frame
        try:
            rdk = [classify(p.text) for p in self.kept.paragraphs]
        except Exception:       # noqa: BLE001
            rdk = [[UNKNOWN]]
        return {"body": project_body(self.body_root),
                "rd": {"frame": classify(self.read_frame()),
                       "paras": [classify(p.text) for p in paras],
                       "runs": [[classify(r.text) for r in p.runs] for p in paras]},
                "rdk": rdk}

    def apply(self, a: dict, s: str | None):
        from pptx.enum.text import PP_ALIGN
        op = a["op"]
        if op == "SetFrame":
            self.tf.text = s
        elif op in ("SetCell", "SetShapeText"):
            self.holder.text = s
        elif op == "SetPara":
            self.tf.paragraphs[a["i"] - 1].text = s
        elif op == "SetRun":
            self.tf.paragraphs[a["i"] - 1].runs[a["j"] - 1].text = s
        elif op == "AddPara":
            self.tf.add_paragraph()
        elif op == "AddRun":
            self.tf.paragraphs[a["i"] - 1].add_run().text = s
        elif op == "AddBreak":
            self.tf.paragraphs[a["i"] - 1].add_line_break()
        elif op == "SetParaProp":
            p = self.tf.paragraphs[a["i"] - 1]
            p.alignment, p.level = {1: (PP_ALIGN.CENTER, 0), 2: (PP_ALIGN.RIGHT, 1), 3: (None, 2)}[a["v"]]
        elif op == "AddField":
            # no public API makes a field: written as PowerPoint does, before a (new) a:endParaRPr
            txb = next(self.body_root.iter(*_TXB))
            p = [x for x in txb if x.tag == _P][a["i"] - 1]
            end = p.find(_END)
            if end is None:
                end = etree.SubElement(p, _END)
                end.set("lang", "en-US")
            fld = etree.Element(_FLD)
            fld.set("id", "{B7F3A1C2-0D4E-4F5A-9B6C-7D8E9F0A1B2C}")
            fld.set("type", "slidenum")
            etree.SubElement(fld, "{%s}rPr" % A).set("lang", "en-US")
            etree.SubElement(fld, _T).text = to_concrete([LT, PLAIN, GT])
            end.addprevious(fld)
        else:
            raise RuntimeError("unknown op " + op)


def _new_container(slide, site, k):
    from pptx.enum.shapes import MSO_SHAPE
    if site == "frame":
        return slide.shapes.add_textbox(10 * k, 0, 914400, 400000)
    if site == "shape":
        return slide.shapes.add_shape(MSO_SHAPE.RECTANGLE, 10 * k, 0, 914400, 400000)
    if site == "cell":
        return slide.shapes.add_table(1, 1, 10 * k, 0, 914400, 400000)
    if site == "spanned":
        gf = slide.shapes.add_table(1, 2, 10 * k, 0, 914400, 400000)
        gf.table.cell(0, 0).merge(gf.table.cell(0, 1))
        return gf
    if site == "nobody":
        # a p:sp WITHOUT p:txBody (what python-pptx itself makes for a picture placeholder; lxml edit of a new text box): the first
        # touch of .text_frame gives it a body with one empty paragraph - and that body must be the shape's, not a detached one
        sp = slide.shapes.add_textbox(10 * k, 0, 914400, 400000)
        for el in list(sp._element):
            if el.tag in _TXB:
                sp._element.remove(el)
        return slide.shapes[-1]
    raise RuntimeError("unknown site " + site)


def _rng(seed: int, sid: str):
    return random.Random(zlib.crc32(("%d:%s" % (seed, sid)).encode()))


def run_batch(scns: list[dict], seed: int = 0, xsd: bool = False) -> list[dict]:
    """Replay the scenarios of one batch in one presentation. Returns one trace per scenario:
    {"id","site","prior","pre": obs before the first action, "steps": [{"a","out","same","t"}]} (t = [] when same).
    xsd=True (C03 host): traces[0]["xsd"] = {"built": .., "final": ..} - the XSD monitor's verdict on the slide part after the prior
    bodies were built and after the last action of the batch."""
    try:
        return _run_batch(scns, seed, xsd=xsd)
    except Exception as e:                                   # a failing package save/re-open: isolate the scenario
        if len(scns) > 1:
            return [run_batch([s], seed, xsd)[0] for s in scns]
        tr = _run_batch(scns, seed, stop_at_reopen=True)
        tr[0]["steps"].append({"a": {"op": "SaveReopen"}, "out": type(e).__name__, "same": True, "t": []})
        return tr


def _run_batch(scns, seed, stop_at_reopen=False, xsd=False):
    import pptx
    prs = pptx.Presentation()
    slide = prs.slides.add_slide(prs.slide_layouts[6])
    hs, traces, pos, last, rngs, used = [], [], [], [], [], set()
    for k, sc in enumerate(scns):
        h = _Handle(sc["site"], _new_container(slide, sc["site"], k))
        built = "ok"
        for a in sc["build"]:                                # the prior body: builder strings are not varied (variant 0)
            try:
                h.apply(a, to_concrete(a["s"]) if "s" in a else None)
            except Exception as e:                           # a builder is a public call like any other: recorded, the scenario ends there
                built = type(e).__name__
                break
        o = h.observe()
        hs.append(h)
        traces.append({"id": sc["id"], "site": sc["site"], "prior": sc["prior"], "pre": o, "steps": []})
        if built != "ok":
            traces[-1]["steps"].append({"a": {"op": "BuildPrior"}, "out": built, "same": True, "t": []})
        pos.append(0 if built == "ok" else len(sc["acts"]))
        last.append(o)
        rngs.append(_rng(seed, sc["id"]))
    mon = {}
    if xsd:
        from mbt.monitor import xsd as X
        mon["built"] = X.errors(slide._element)
    while True:
        waiting = []
        for k, sc in enumerate(scns):
            acts = sc["acts"]
            while pos[k] < len(acts) and acts[pos[k]]["op"] != "SaveReopen":
                a = dict(acts[pos[k]])
                s = None
                if a.get("same"):
                    # assign exactly what this level reads now (the model predicted the classes; the trace carries the real characters)
                    try:
                        s = hs[k].tf.paragraphs[a["i"] - 1].text if a["op"] == "SetPara" else hs[k].read_frame()
                    except Exception:
                        s = to_concrete(a["s"])
                    a["s"] = classify(s)
                elif "s" in a:
                    s, a["s"] = concretise(a["s"], rngs[k])
                    used.update(a["s"])
                try:
                    hs[k].apply(a, s)
                    out = "ok"
                except Exception as e:
                    out = type(e).__name__
                o = hs[k].observe()
                same = o == last[k]
                traces[k]["steps"].append({"a": a, "out": out, "same": same, "t": [] if same else o})
                last[k] = o
                pos[k] += 1
            if pos[k] < len(acts):
                waiting.append(k)
        if not waiting or stop_at_reopen:
            break
        bio = io.BytesIO()
        prs.save(bio)
        bio.seek(0)
        prs = pptx.Presentation(bio)
        shapes = list(prs.slides[0].shapes)
        if len(shapes) != len(scns):
            raise RuntimeError("re-opened slide has %d shapes for %d scenarios" % (len(shapes), len(scns)))
        for k in range(len(scns)):
            hs[k] = _Handle(scns[k]["site"], shapes[k])
        for k in waiting:
            o = hs[k].observe()
            same = o == last[k]
            traces[k]["steps"].append({"a": {"op": "SaveReopen"}, "out": "ok", "same": same, "t": [] if same else o})
            last[k] = o
            pos[k] += 1
    for tr in traces:
        tr["used"] = []
    if traces:
        traces[0]["used"] = sorted(used)
        if xsd:
            from mbt.monitor import xsd as X
            mon["final"] = X.errors(prs.slides[0]._element)
            traces[0]["xsd"] = mon
    return traces


def describe(sc: dict, seed: int = 0) -> list:
    """The concrete strings a scenario assigns (same choices as run_batch), for replay files and reports."""
    rng = _rng(seed, sc["id"])
    out = []
    for a in sc["acts"]:
        if a.get("same"):
            out.append({"op": a["op"], "i": a.get("i"), "text": "<what this level reads at that moment>", "tokens": a["s"]})
        elif "s" in a:
            s, ref = concretise(a["s"], rng)
            out.append({"op": a["op"], "i": a.get("i"), "j": a.get("j"), "text": s, "repr": ascii(s), "tokens": ref})
        else:
            out.append({"op": a["op"]})
    return out
