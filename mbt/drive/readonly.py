"""Driver for ReadOnly.tla (C12): generic traversal of every public read accessor, package comparison by role."""
from __future__ import annotations

import hashlib
import inspect
import io
import posixpath
import re

from lxml import etree

from mbt.drive import faults as F
from mbt.drive import opc as D

# "accessors documented as creating content": the docstring itself says that reading the property creates / is destructive
CREATING = re.compile(r"destructive|side[- ]effect|one is created|newly created if|newly created with its|are created if|is added if|"
                      r"to be added if not present|element if not present|adds an? |"
                      # a conditional-creation sentence in any word order: "is created on first use when ...", "if absent, one is made"
                      r"\b(created|added|made|inserted)\b[^.]{0,80}\b(if|when|on first|unless)\b|"
                      r"\b(if|when)\b[^.]{0,80}\b(not|none|no|absent|missing)\b[^.]{0,60}\b(created|added|made|inserted)\b", re.I | re.S)
# second opinion on an accessor that DID change the package when read: does its docstring, in any wording, say that reading it
# creates / adds / inserts something?  Then it is "documented as creating" (a reworded docstring must not raise an alarm); it is
# consulted only for accessors already caught mutating, so its breadth cannot hide a getter whose docstring promises a plain read
LENIENT = re.compile(r"creat|\badd(s|ed|ing)?\b|insert|if (it is |one is )?not (already |yet )?present|destructive|side[- ]effect|"
                     r"\bmade\b|\bmakes\b|lazily|on first (access|use)|when (first )?accessed", re.I)
LENIENT_DOCUMENTED: set = set()
SKIP_NAMES = {"part", "package", "element", "xml", "blob"}      # navigation into the packaging layer / raw serialisation
GROUP_MODULES = {
    "slides": ("pptx.presentation", "pptx.slide"),
    "shapes": ("pptx.shapes",),
    "text": ("pptx.text",),
    "tables": ("pptx.table",),
    "charts": ("pptx.chart",),
    "dml": ("pptx.dml", "pptx.action"),
    "core": ("pptx.parts.coreprops", "pptx.parts.image", "pptx.media"),
}
_doc_cache: dict = {}
EXTRA_CREATING: set = set()


def accessors(cls):
    """(readable, documented-as-creating) public property names of cls."""
    if cls in _doc_cache:
        return _doc_cache[cls]
    read, creating = [], []
    for name in dir(cls):
        if name.startswith("_") or name in SKIP_NAMES:
            continue
        try:
            attr = inspect.getattr_static(cls, name)
        except AttributeError:
            continue
        is_prop = isinstance(attr, property) or type(attr).__name__ == "lazyproperty"
        if not is_prop:
            continue
        doc = (getattr(attr, "__doc__", None) or "")
        if not doc and isinstance(attr, property) and attr.fget is not None:
            doc = attr.fget.__doc__ or ""
        # predicates (has_*/is_*) are read whatever their docstring says about *other* accessors (has_notes_slide's mentions the side effect
        # of notes_slide): the property names them as part of the read surface
        is_pred = name.startswith("has_") or name.startswith("is_")
        (creating if ((CREATING.search(doc) and not is_pred) or name in EXTRA_CREATING) else read).append(name)
        if LENIENT.search(doc) and not is_pred:
            LENIENT_DOCUMENTED.add("%s.%s" % (cls.__name__, name))
    _doc_cache[cls] = (read, creating)
    return _doc_cache[cls]


def lenient_documented(acc: str) -> bool:
    """`Class.attr` (as named in traversal statistics): does the accessor's docstring speak of creating at all?"""
    import sys
    import pptx  # noqa: F401
    cname, attr = acc.split(".", 1)
    for mname, mod in list(sys.modules.items()):
        if not mname.startswith("pptx") or mod is None:
            continue
        cls = getattr(mod, cname, None)
        if not isinstance(cls, type):
            continue
        try:
            a = inspect.getattr_static(cls, attr)
        except AttributeError:
            continue
        doc = getattr(a, "__doc__", None) or ""
        if not doc and isinstance(a, property) and a.fget is not None:
            doc = a.fget.__doc__ or ""
        if LENIENT.search(doc):
            return True
    return False


def in_group(obj, group: str) -> bool:
    mod = type(obj).__module__
    return any(mod.startswith(m) for m in GROUP_MODULES[group])


def traverse(prs, group: str, stats: dict, limit: int = 4000, only: set | None = None, skip: frozenset = frozenset()):
    """Read every non-creating public property of every object of `group` reachable from prs; navigate through all groups."""
    seen = set()
    foreign: dict = {}
    keep = []          # proxies are created on the fly: keep them alive so that id() is not reused within one traversal
    stack = [prs]
    n = 0
    while stack and n < limit:
        obj = stack.pop()
        if id(obj) in seen:
            continue
        seen.add(id(obj))
        keep.append(obj)
        cls = type(obj)
        if not cls.__module__.startswith("pptx"):
            continue
        read, creating = accessors(cls)
        for name in creating:
            guard = GUARDED.get(name)
            if guard is not None and hasattr(cls, guard):
                # a creating accessor whose own predicate says the content already exists creates nothing: reading it is a read
                try:
                    if getattr(obj, guard):
                        v = getattr(obj, name)
                        n += 1
                        stats.setdefault("reads", set()).add("%s.%s" % (cls.__name__, name))
                        push(v, stack)
                        continue
                except Exception:
                    pass
            stats.setdefault("excluded", set()).add("%s.%s" % (cls.__name__, name))
        nav_only = not in_group(obj, group)
        for name in read:
            if "%s.%s" % (cls.__name__, name) in skip:
                continue
            nav = name in NAV and not (cls.__module__.startswith("pptx.chart") and name in ("font", "text_frame", "image"))
            if only is not None:
                if not nav and "%s.%s" % (cls.__name__, name) not in only:
                    continue
            elif nav_only and not nav:
                continue
            try:
                v = getattr(obj, name)
            except Exception:
                continue
            n += 1
            stats.setdefault("reads", set()).add("%s.%s" % (cls.__name__, name))
            push(v, stack)
        # containers: len / iteration / indexing
        if hasattr(cls, "__iter__") and hasattr(cls, "__len__") and not isinstance(obj, (str, bytes)):
            try:
                ln = len(obj)
                for i, item in enumerate(obj):
                    if i >= 40:
                        break
                    push(item, stack)
                if ln:
                    obj[0]
            except Exception:
                pass
            # a membership query whose answer is "not present" (documented: ValueError): the member of ANOTHER collection of the same
            # class met earlier in this traversal (a layout of the other master, a shape of another slide)
            if hasattr(cls, "index"):
                other = foreign.get(cls.__name__)
                try:
                    first = next(iter(obj), None)
                except Exception:
                    first = None
                if other is not None and other[0] is not obj and first is not None and other[1] is not first:
                    try:
                        obj.index(other[1])
                    except Exception:
                        pass
                    n += 1
                    stats.setdefault("reads", set()).add("%s.index(<non-member>)" % cls.__name__)
                if first is not None and cls.__name__ not in foreign:
                    foreign[cls.__name__] = (obj, first)
    stats["count"] = stats.get("count", 0) + n


NAV = {"slides", "slide_layouts", "slide_masters", "shapes", "placeholders", "text_frame", "paragraphs", "runs", "table", "rows", "columns",
       "cells", "chart", "plots", "series", "categories", "slide_layout", "slide_master", "has_text_frame", "has_table", "has_chart",
       "notes_slide", "has_notes_slide", "image", "font", "core_properties", "points", "value_axis", "category_axis", "legend"}
GUARDED = {"notes_slide": "has_notes_slide", "chart_title": "has_title", "axis_title": "has_title", "legend": "has_legend",
           "text_frame": "has_text_frame"}     # (a title's text frame: read when its own predicate says it is there)
# NAV entries that are documented as creating are still excluded by `accessors` (e.g. notes_slide); has_* guards keep text_frame/chart/table safe


def push(v, stack):
    if v is None or isinstance(v, (str, bytes, int, float, bool)):
        return
    if type(v).__module__.startswith("pptx"):
        stack.append(v)
    elif isinstance(v, (list, tuple)):
        for x in v[:40]:
            if type(x).__module__.startswith("pptx"):
                stack.append(x)


# ------------------------------------------------------------------ package comparison
def _strip_empty(root):
    changed = True
    while changed:
        changed = False
        for el in list(root.iter()):
            if el is root or not isinstance(el.tag, str):
                continue
            if len(el) == 0 and not el.attrib and not (el.text or "").strip():
                par = el.getparent()
                if par is not None:
                    tail = el.tail
                    prev = el.getprevious()
                    par.remove(el)
                    changed = True


def token(name: str, b: bytes) -> str:
    if name.endswith(".xml") or name.endswith(".rels") or name.endswith(".vml"):
        try:
            root = etree.fromstring(b)
            _strip_empty(root)
            c = D.canon(etree.tostring(root))
            if c:
                return "c:" + c[:20]
        except etree.XMLSyntaxError:
            pass
    return "b:" + hashlib.sha1(b).hexdigest()[:20]


def by_role(members: dict) -> list[dict]:
    """Members keyed by role: slide parts (and their rels items) named by presentation position."""
    order = {}
    mp = F.main_part(members)
    if mp and mp[1:] in members and F.rels_name_of(mp) in members:
        prs = etree.fromstring(members[mp[1:]])
        rel = {el.get("Id"): F.resolve(mp, el.get("Target")) for el in etree.fromstring(members[F.rels_name_of(mp)])
               if isinstance(el.tag, str) and el.get("TargetMode") != "External"}
        for k, sld in enumerate(prs.iterfind("{%s}sldIdLst/{%s}sldId" % (F.NS_P, F.NS_P))):
            t = rel.get(sld.get("{%s}id" % F.NS_R))
            if t:
                order[t] = "/ppt/slides/<slide#%d>" % (k + 1)

    def role_of(name):
        return order.get(name, name)
    out = []
    for n, b in members.items():
        full = "/" + n
        if D._RELS_RE.match(n):
            src = F.src_of(n)
            # relationship targets that are slides are rewritten to their role so a rename is not a difference
            root = etree.fromstring(b)
            for el in root:
                if isinstance(el.tag, str) and el.get("TargetMode") != "External":
                    el.set("Target", role_of(F.resolve(src, el.get("Target"))))
            items = sorted((el.get("Id"), el.get("Type"), el.get("Target"), el.get("TargetMode") or "") for el in root if isinstance(el.tag, str))
            out.append({"role": "rels-of:" + role_of(src), "tok": "r:" + hashlib.sha1(repr(items).encode()).hexdigest()[:20]})
        elif n == "[Content_Types].xml":
            root = etree.fromstring(b)
            items = sorted((etree.QName(el).localname, (el.get("Extension") or "").lower(), role_of(el.get("PartName") or ""), el.get("ContentType"))
                           for el in root if isinstance(el.tag, str))
            out.append({"role": full, "tok": "t:" + hashlib.sha1(repr(items).encode()).hexdigest()[:20]})
        else:
            out.append({"role": role_of(full), "tok": token(n, b)})
    return sorted(out, key=lambda x: x["role"])


def has_core(path: str) -> bool:
    members = D.read_zip(path)
    return any(a.get("Type") == F.RT_CORE for _, _, a, _ in F.iter_rels({k: v for k, v in members.items() if k == "_rels/.rels"}))


def run(tid: str, path: str, order: list[str]) -> dict:
    import pptx
    if not has_core(path):
        # a package without core properties gains a default part on first access (property C18): that access is a documented
        # creating accessor for such decks
        _doc_cache.clear()
        EXTRA_CREATING.add("core_properties")
    else:
        if "core_properties" in EXTRA_CREATING:
            _doc_cache.clear()
        EXTRA_CREATING.discard("core_properties")
    b0 = io.BytesIO()
    pptx.Presentation(path).save(b0)
    base = by_role(D.read_zip(io.BytesIO(b0.getvalue())))
    prs = pptx.Presentation(path)
    saves = []
    stats: dict = {}
    for g in order:
        if g == "save":
            b = io.BytesIO()
            prs.save(b)
            saves.append(by_role(D.read_zip(io.BytesIO(b.getvalue()))))
        else:
            traverse(prs, g, stats)
    b = io.BytesIO()
    prs.save(b)
    saves.append(by_role(D.read_zip(io.BytesIO(b.getvalue()))))
    b = io.BytesIO()
    prs.save(b)
    saves.append(by_role(D.read_zip(io.BytesIO(b.getvalue()))))
    return {"id": tid, "base": base, "saves": saves, "order": order,
            "_reads": sorted(stats.get("reads", ())), "_excluded": sorted(stats.get("excluded", ())), "_count": stats.get("count", 0)}


def culprits(path: str, group: str, reads: list[str]) -> list[str]:
    """Which single accessors of `group` change the saved package when read alone (navigation accessors are always read)."""
    import pptx
    b0 = io.BytesIO()
    pptx.Presentation(path).save(b0)
    base = by_role(D.read_zip(io.BytesIO(b0.getvalue())))

    def changed(only, skip=frozenset()):
        prs = pptx.Presentation(path)
        traverse(prs, group, {}, only=only, skip=skip)
        traverse(prs, group, {}, only=only, skip=skip)     # a second pass reaches objects cached by the first (lazy properties)
        b = io.BytesIO()
        prs.save(b)
        return by_role(D.read_zip(io.BytesIO(b.getvalue()))) != base
    if changed(set()):
        # navigation alone changes it: the navigation accessor without which nothing changes is the one responsible
        navs = [a for a in reads if a.split(".")[1] in NAV]
        out = [a for a in navs if not changed(set(), frozenset([a]))]
        return out or ["<navigation>"]
    out = []
    for acc in reads:
        if changed({acc}) and not (acc.split(".")[1] in NAV and not changed({acc + "#none"})):
            out.append(acc)
    return out


def gen_decks(outdir: str) -> list[str]:
    """Decks generated through the public API: one slide per layout of the default template (unpopulated placeholders of every
    kind), and one slide holding every shape kind the API can add, with a notes page."""
    import os
    import pptx
    from pptx.chart.data import CategoryChartData
    from pptx.enum.chart import XL_CHART_TYPE
    from pptx.enum.shapes import MSO_CONNECTOR, MSO_SHAPE
    from pptx.util import Emu
    os.makedirs(outdir, exist_ok=True)
    out = []
    prs = pptx.Presentation()
    for lay in prs.slide_layouts:
        prs.slides.add_slide(lay)
    p = os.path.join(outdir, "gen-layouts.pptx")
    prs.save(p)
    out.append(p)
    prs = pptx.Presentation()
    s = prs.slides.add_slide(prs.slide_layouts[6])
    sh = s.shapes
    sh.add_shape(MSO_SHAPE.ROUNDED_RECTANGLE, Emu(10), Emu(20), Emu(300000), Emu(200000))
    sh.add_textbox(Emu(0), Emu(0), Emu(300000), Emu(200000)).text_frame.text = "a\nb"
    sh.add_connector(MSO_CONNECTOR.STRAIGHT, Emu(5), Emu(6), Emu(700), Emu(800))
    img = os.path.join(os.path.dirname(corpus_decks()[0]), "python-icon.jpeg")
    if os.path.exists(img):
        sh.add_picture(img, Emu(1), Emu(2))
    sh.add_table(2, 2, Emu(0), Emu(0), Emu(900000), Emu(400000))
    cd = CategoryChartData()
    cd.categories = ["x", "y"]
    cd.add_series("s", (1, 2))
    sh.add_chart(XL_CHART_TYPE.COLUMN_CLUSTERED, Emu(0), Emu(0), Emu(900000), Emu(900000), cd)
    g = sh.add_group_shape()
    g.shapes.add_shape(MSO_SHAPE.OVAL, Emu(10), Emu(20), Emu(300), Emu(200))
    fb = sh.build_freeform(Emu(10), Emu(10))
    fb.add_line_segments([(Emu(100), Emu(10)), (Emu(100), Emu(100))])
    fb.convert_to_shape()
    # a group as other producers write it: a drawing canvas scaled onto the slide - its child window (a:chOff / a:chExt) is NOT the
    # tight bounding box of its members and its frame is not the window (lxml edit; python-pptx itself always writes the tight box)
    g2 = sh.add_group_shape()
    g2.shapes.add_shape(MSO_SHAPE.RECTANGLE, Emu(100), Emu(200), Emu(3000), Emu(2000))
    g2.shapes.add_textbox(Emu(500), Emu(600), Emu(1000), Emu(700)).text_frame.text = "in canvas"
    xf = g2._element.find("{%s}grpSpPr/{%s}xfrm" % (F.NS_P, "http://schemas.openxmlformats.org/drawingml/2006/main"))
    for tag, attrs in (("off", {"x": "914400", "y": "457200"}), ("ext", {"cx": "1828800", "cy": "1371600"}),
                       ("chOff", {"x": "0", "y": "0"}), ("chExt", {"cx": "8000", "cy": "6000"})):
        el = xf.find("{http://schemas.openxmlformats.org/drawingml/2006/main}%s" % tag)
        for k, v in attrs.items():
            el.set(k, v)
    s.notes_slide.notes_text_frame.text = "note"
    # content the library has no class for, as PowerPoint writes it: a shape wrapped in mc:AlternateContent (an equation / 3D model / zoom
    # with its fallback picture-like shape), on the slide and inside a group; a shape whose p:nvPr carries an extension list
    s2 = prs.slides.add_slide(prs.slide_layouts[5])
    s2.shapes.title.text = "foreign content"
    g3 = s2.shapes.add_group_shape()
    g3.shapes.add_shape(MSO_SHAPE.RECTANGLE, Emu(100), Emu(200), Emu(3000), Emu(2000))
    A = "http://schemas.openxmlformats.org/drawingml/2006/main"
    alt = ('<mc:AlternateContent xmlns:mc="http://schemas.openxmlformats.org/markup-compatibility/2006" xmlns:p="%s" xmlns:a="%s" '
           'xmlns:a14="http://schemas.microsoft.com/office/drawing/2010/main"><mc:Choice Requires="a14"><p:sp><p:nvSpPr><p:cNvPr id="%%d" '
           'name="Equation %%d"/><p:cNvSpPr txBox="1"/><p:nvPr/></p:nvSpPr><p:spPr><a:xfrm><a:off x="10" y="20"/><a:ext cx="300" cy="200"/>'
           '</a:xfrm><a:prstGeom prst="rect"><a:avLst/></a:prstGeom></p:spPr><p:txBody><a:bodyPr/><a:p><a:r><a:t>choice</a:t></a:r></a:p>'
           '</p:txBody></p:sp></mc:Choice><mc:Fallback><p:sp><p:nvSpPr><p:cNvPr id="%%d" name="Equation %%d"/><p:cNvSpPr txBox="1"/><p:nvPr/>'
           '</p:nvSpPr><p:spPr><a:xfrm><a:off x="10" y="20"/><a:ext cx="300" cy="200"/></a:xfrm><a:prstGeom prst="rect"><a:avLst/>'
           '</a:prstGeom></p:spPr><p:txBody><a:bodyPr/><a:p><a:r><a:t>fallback</a:t></a:r></a:p></p:txBody></p:sp></mc:Fallback>'
           '</mc:AlternateContent>' % (F.NS_P, A))
    s2.shapes._spTree.append(etree.fromstring(alt % (40, 40, 40, 40)))
    g3._element.append(etree.fromstring(alt % (41, 41, 41, 41)))
    nv = s2.shapes.title._element.find("{%s}nvSpPr/{%s}nvPr" % (F.NS_P, F.NS_P))
    nv.append(etree.fromstring('<p:extLst xmlns:p="%s"><p:ext uri="{D42A27DB-BD31-4B8C-83A1-F6EECF244321}"><p14:modId '
                               'xmlns:p14="http://schemas.microsoft.com/office/powerpoint/2010/main" val="1234567"/></p:ext></p:extLst>' % F.NS_P))
    # a slide-number field on the slide itself whose stored text is not the slide's position (the deck numbers its slides from 5, as
    # "Number slides from" in Slide Size sets it; a field keeps the text it was saved with)
    tb = s2.shapes.add_textbox(Emu(100), Emu(5000000), Emu(900000), Emu(300000))
    para = tb.text_frame.paragraphs[0]._p
    para.insert(0, etree.fromstring('<a:fld xmlns:a="%s" id="{B7F3A1C2-0D4E-4F5A-9B6C-7D8E9F0A1B2C}" type="slidenum"><a:rPr lang="en-US"/>'
                                    '<a:t>6</a:t></a:fld>' % A))
    prs.part._element.set("firstSlideNum", "5")
    p = os.path.join(outdir, "gen-shapes.pptx")
    prs.save(p)
    out.append(p)
    # three slides with notes pages whose slide PART NAMES are neither contiguous nor in presentation order (slide3, slide1, slide4: the
    # name a count-based allocator would give the next slide - slide4 - is taken):
    # the first read of prs.slides renames the parts - every relationship that leads to them has to follow
    prs = pptx.Presentation()
    for k in range(3):
        s = prs.slides.add_slide(prs.slide_layouts[1])
        s.shapes.title.text = "slide %d" % (k + 1)
        s.notes_slide.notes_text_frame.text = "note %d" % (k + 1)
    b = io.BytesIO()
    prs.save(b)
    members = D.read_zip(io.BytesIO(b.getvalue()))
    nums = [3, 1, 4]
    tmp = {"/ppt/slides/slide%d.xml" % (k + 1): "/ppt/slides/slideTMP%d.xml" % (k + 1) for k in range(3)}
    fin = {"/ppt/slides/slideTMP%d.xml" % (k + 1): "/ppt/slides/slide%d.xml" % nums[k] for k in range(3)}
    members = F.rename_parts(F.rename_parts(members, tmp), fin)
    # the second notes page as a converter writes it: no placeholder at all, the notes in a plain text box
    nn = "ppt/notesSlides/notesSlide2.xml"
    root = etree.fromstring(members[nn])
    tree = root.find("{%s}cSld/{%s}spTree" % (F.NS_P, F.NS_P))
    for sp in [el for el in tree if isinstance(el.tag, str) and el.find("*/{%s}nvPr/{%s}ph" % (F.NS_P, F.NS_P)) is not None]:
        tree.remove(sp)
    tree.append(etree.fromstring(
        '<p:sp xmlns:p="%s" xmlns:a="http://schemas.openxmlformats.org/drawingml/2006/main"><p:nvSpPr><p:cNvPr id="77" name="Plain notes"/>'
        '<p:cNvSpPr txBox="1"/><p:nvPr/></p:nvSpPr><p:spPr><a:xfrm><a:off x="100" y="200"/><a:ext cx="3000000" cy="1000000"/></a:xfrm>'
        '<a:prstGeom prst="rect"><a:avLst/></a:prstGeom></p:spPr><p:txBody><a:bodyPr/><a:lstStyle/><a:p><a:r><a:t>plain note</a:t></a:r></a:p>'
        '</p:txBody></p:sp>' % F.NS_P))
    members[nn] = etree.tostring(root, xml_declaration=True, encoding="UTF-8", standalone=True)
    p = os.path.join(outdir, "gen-permuted-names.pptx")
    with open(p, "wb") as f:
        D.write_zip(members, f)
    out.append(p)
    out.append(foreign_charts_deck(outdir))
    return out


def foreign_charts_deck(outdir: str) -> str:
    """A deck with charts of types python-pptx reads as foreign (it cannot generate them): c:bar3DChart, c:line3DChart, c:pie3DChart -
    written by rewriting the plot element of charts the library generated (children as the 3-D types' content models allow; each chart
    part is checked against dml-chart.xsd here)."""
    import os
    import pptx
    from pptx.chart.data import CategoryChartData
    from pptx.enum.chart import XL_CHART_TYPE
    from pptx.util import Emu
    from mbt.monitor import xsd
    C = "http://schemas.openxmlformats.org/drawingml/2006/chart"
    prs = pptx.Presentation()
    for ct in (XL_CHART_TYPE.COLUMN_CLUSTERED, XL_CHART_TYPE.LINE, XL_CHART_TYPE.PIE):
        cd = CategoryChartData()
        cd.categories = ["x", "y", "z"]
        cd.add_series("s1", (1, 2, 3))
        if ct != XL_CHART_TYPE.PIE:
            cd.add_series("s2", (3, 1, 2))
        prs.slides.add_slide(prs.slide_layouts[6]).shapes.add_chart(ct, Emu(0), Emu(0), Emu(4000000), Emu(3000000), cd)
    b = io.BytesIO()
    prs.save(b)
    members = D.read_zip(io.BytesIO(b.getvalue()))
    q = lambda n: "{%s}%s" % (C, n)  # noqa: E731
    for k, (old, new, drop) in enumerate((("barChart", "bar3DChart", ("overlap",)), ("lineChart", "line3DChart", ("marker", "smooth")),
                                          ("pieChart", "pie3DChart", ("firstSliceAng",))), 1):
        name = "ppt/charts/chart%d.xml" % k
        root = etree.fromstring(members[name])
        before = set(xsd.errors(etree.fromstring(members[name])))      # (the library's own negative axis ids are a recorded finding of C03)
        plot = next(root.iter(q(old)))
        plot.tag = q(new)
        for ch in list(plot):
            if etree.QName(ch).localname in drop:
                plot.remove(ch)
        for ser in plot.iter(q("ser")):             # (a marker inside a series is not part of a 3-D line series' use; it is allowed by CT_LineSer)
            pass
        if new == "line3DChart":                    # exactly three axes: a series axis joins the category and value axes
            ax = etree.SubElement(plot, q("axId"))
            ax.set("val", "77770003")
            pa = plot.getparent()
            first = [x for x in plot if x.tag == q("axId")][0].get("val")
            ser_ax = etree.fromstring('<c:serAx xmlns:c="%s"><c:axId val="77770003"/><c:scaling/><c:delete val="0"/><c:axPos val="b"/>'
                                      '<c:crossAx val="%s"/></c:serAx>' % (C, first))
            last_ax = [x for x in pa if etree.QName(x).localname in ("catAx", "valAx", "dateAx")][-1]
            last_ax.addnext(ser_ax)
        # titles LINKED to a worksheet cell (c:tx/c:strRef: what PowerPoint / Excel write for a title given as a formula; the library
        # itself writes c:rich only): the chart title of every chart, the value-axis title of the first
        LINK = ('<c:title xmlns:c="%s"><c:tx><c:strRef><c:f>Sheet1!$B$1</c:f><c:strCache><c:ptCount val="1"/><c:pt idx="0"><c:v>s1</c:v></c:pt>'
                '</c:strCache></c:strRef></c:tx><c:overlay val="0"/></c:title>' % C)
        chart_el = root.find(q("chart"))
        for old_t in chart_el.findall(q("title")):
            chart_el.remove(old_t)
        chart_el.insert(0, etree.fromstring(LINK))
        atd = chart_el.find(q("autoTitleDeleted"))
        if atd is not None:
            atd.set("val", "0")
        if k == 1:
            va = next(root.iter(q("valAx")))
            for old_t in va.findall(q("title")):
                va.remove(old_t)
            after = [x for x in va if etree.QName(x).localname in ("axPos", "majorGridlines", "minorGridlines")][-1]
            after.addnext(etree.fromstring(LINK))
        errs = sorted(set(xsd.errors(etree.fromstring(etree.tostring(root)))) - before)
        if errs:
            raise RuntimeError("generated %s is not schema-valid: %s" % (new, errs))
        members[name] = etree.tostring(root, xml_declaration=True, encoding="UTF-8", standalone=True)
    os.makedirs(outdir, exist_ok=True)
    p = os.path.join(outdir, "gen-foreign-charts.pptx")
    with open(p, "wb") as f:
        D.write_zip(members, f)
    return p


def corpus_decks():
    from mbt import corpus
    return corpus.decks()
